SPECIFICATION TraceSpec
CONSTRAINT Consumed
CHECK_DEADLOCK FALSE
