----------------------------- MODULE StoreModel -----------------------------
(***************************************************************************)
(* The store contract (C08) and the in-memory object cache wrapped around  *)
(* it (C12).                                                               *)
(*                                                                         *)
(* Abstract store: a set of stored keys (content addressed: the value of a *)
(* key is fixed, ValOf) and a path table keyed by path *identity* = the    *)
(* sequence of non-empty segments (DESIGN 4.6).  Every operation has an    *)
(* explicit answer.  The cache layer transcribes dds/_lru_store.py: an     *)
(* ordered list of (key, answer) entries, capacity Cap, probing moves an   *)
(* entry to the MRU end.  `CacheAbsent` selects whether a fetch of an      *)
(* absent key caches its None answer (the defect of the pinned tree) or    *)
(* not (repaired).  TLC checks, in every reachable state, that the wrapped *)
(* answers equal the bare answers (Invisible) and Len(cache) <= Cap.       *)
(*                                                                         *)
(* StoreConf (generated): Keys, NoneKeys, NPaths, Cap, CacheAbsent,        *)
(* StoreKind, MaxOps, GenMode, SyncSets, SyncAbsent.                                   *)
(***************************************************************************)
EXTENDS Naturals, Sequences, FiniteSets, TLC, Json, StoreConf

VARIABLES blobs,   \* set of keys stored
          paths,   \* [1..NPaths -> Keys \cup {"-"}]   "-" = not committed
          cache,   \* sequence of <<key, answer>>, MRU last (empty when Cap = 0)
          last,    \* [op, arg, b (bare answer), l (wrapped answer)] of the last operation
          hist     \* observation only

vars == <<blobs, paths, cache, last, hist>>

PathIds == 1..NPaths
None == <<"None">>
ValOf(k) == IF k \in NoneKeys THEN None ELSE <<"V", k>>

CacheKeys == {cache[i][1] : i \in 1..Len(cache)}
CacheIdx(k) == CHOOSE i \in 1..Len(cache) : cache[i][1] = k
Without(k) == SelectSeq(cache, LAMBDA e : e[1] # k)
Touch(k) == IF k \in CacheKeys THEN Append(Without(k), cache[CacheIdx(k)]) ELSE cache
RECURSIVE Trim(_)
Trim(c) == IF Len(c) > Cap THEN Trim(Tail(c)) ELSE c
Put(c, k, a) == Trim(Append(SelectSeq(c, LAMBDA e : e[1] # k), <<k, a>>))

Record(op, arg, b, l) ==
  /\ last' = [op |-> op, arg |-> arg, b |-> b, l |-> l]
  /\ hist' = Append(hist, [op |-> op, arg |-> arg, ans |-> b])

CanOp == Len(hist) < MaxOps

StoreBlob(k) ==
  /\ CanOp
  /\ blobs' = blobs \cup {k}
  /\ Record("store", k, <<"ok">>, <<"ok">>)
  /\ UNCHANGED <<paths, cache>>

HasBlob(k) ==
  /\ CanOp
  /\ LET b == k \in blobs
         l == IF Cap > 0 THEN (k \in CacheKeys) \/ b ELSE b
     IN Record("has", k, <<"B", b>>, <<"B", l>>)
  /\ cache' = IF Cap > 0 THEN Touch(k) ELSE cache
  /\ UNCHANGED <<blobs, paths>>

FetchBlob(k) ==
  /\ CanOp
  /\ LET b == IF k \in blobs THEN ValOf(k) ELSE None
         hit == Cap > 0 /\ k \in CacheKeys
         l == IF hit THEN cache[CacheIdx(k)][2] ELSE b
     IN /\ Record("fetch", k, b, l)
        /\ cache' = IF Cap = 0 THEN cache
                    ELSE IF hit THEN Touch(k)
                    ELSE IF CacheAbsent \/ k \in blobs THEN Put(cache, k, b) ELSE cache
  /\ UNCHANGED <<blobs, paths>>

(* a commit: a non-empty map over at most two paths.  With SyncAbsent a path may also be committed   *)
(* to a key whose blob is not stored (dds does so for a keep in a branch that is not executed);     *)
(* the DBFS store with a full commit cannot (it copies the blob), its contract runs have it off.    *)
SyncPaths(m) ==
  /\ CanOp
  /\ SyncAbsent \/ \A p \in DOMAIN m : m[p] \in blobs
  /\ paths' = [p \in PathIds |-> IF p \in DOMAIN m THEN m[p] ELSE paths[p]]
  /\ Record("sync", {<<p, m[p]>> : p \in DOMAIN m}, <<"ok">>, <<"ok">>)
  /\ UNCHANGED <<blobs, cache>>

FetchPaths(ps) ==
  /\ CanOp
  /\ LET a == IF \E p \in ps : paths[p] = "-" THEN <<"missing">>
              ELSE <<"M", {<<p, paths[p]>> : p \in ps}>>
     IN Record("fetch_paths", ps, a, a)
  /\ UNCHANGED <<blobs, paths, cache>>

(* a new store object over the same directories: the cache is gone; a memory *)
(* store forgets everything                                                   *)
Reopen ==
  /\ CanOp
  /\ cache' = <<>>
  /\ IF StoreKind = "memory"
     THEN blobs' = {} /\ paths' = [p \in PathIds |-> "-"]
     ELSE UNCHANGED <<blobs, paths>>
  /\ Record("reopen", "", <<"ok">>, <<"ok">>)

Init ==
  /\ blobs = {} /\ paths = [p \in PathIds |-> "-"] /\ cache = <<>>
  /\ last = [op |-> "init", arg |-> "", b |-> <<"ok">>, l |-> <<"ok">>]
  /\ hist = <<>>

Next ==
  \/ \E k \in Keys : StoreBlob(k) \/ HasBlob(k) \/ FetchBlob(k)
  \/ \E d \in SyncSets : \E m \in [d -> Keys] : SyncPaths(m)
  \/ \E d \in SyncSets : FetchPaths(d)
  \/ Reopen

Spec == Init /\ [][Next]_vars

-----------------------------------------------------------------------------
(* C12 *)
Invisible == last.b = last.l
Bounded   == Len(cache) <= Cap
(* the cache never holds an entry that disagrees with the store *)
CacheCoherent == \A i \in 1..Len(cache) :
                   cache[i][2] = (IF cache[i][1] \in blobs THEN ValOf(cache[i][1]) ELSE None)

(* C08: round trips, as properties of the answers *)
BlobRoundTrip ==
  /\ last.op = "has"   => last.b = <<"B", last.arg \in blobs>>
  /\ last.op = "fetch" => (last.arg \in blobs => last.b = ValOf(last.arg))
PathRoundTrip ==
  last.op = "fetch_paths" /\ last.b[1] = "M" => \A x \in last.b[2] : paths[x[1]] = x[2]

Dump == IF GenMode /\ Len(hist) = MaxOps
        THEN PrintT(<<"HIST", ToJson(hist)>>) ELSE TRUE
View == <<blobs, paths, cache, last, Len(hist)>>
DesignView == <<blobs, paths, cache, last>>
=============================================================================
