SPECIFICATION SpecC
CONSTANT defaultInitValue = defaultInitValue
INVARIANT ReturnedComplete
INVARIANT NoFailure
INVARIANT CommittedLoadable
CHECK_DEADLOCK FALSE
