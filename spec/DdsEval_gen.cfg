SPECIFICATION Spec
INVARIANT RetCorrect
CONSTRAINT PlanConstraint
CONSTRAINT Dump
CHECK_DEADLOCK FALSE
