SPECIFICATION TSpec
CONSTRAINT Judged
CHECK_DEADLOCK FALSE
