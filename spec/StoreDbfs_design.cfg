SPECIFICATION Spec
INVARIANT CommitHonoured
INVARIANT LoadIffRecord
INVARIANT LegacyKind
VIEW DesignView
CHECK_DEADLOCK FALSE
