SPECIFICATION Spec
INVARIANT CommitHonoured
INVARIANT LoadIffRecord
INVARIANT CopyHasRecord
PROPERTY CommitStep
INVARIANT LegacyKind
VIEW DesignView
CHECK_DEADLOCK FALSE
