----------------------------- MODULE StoreTrace -----------------------------
(***************************************************************************)
(* Trace validation of recorded store executions against StoreModel.       *)
(* The companion module StoreConf is generated in "trace mode": it declares*)
(* the variable tid and defines Keys, NoneKeys, NPaths, Cap, StoreKind from*)
(* the trace chosen in the initial state, so that thousands of traces are  *)
(* validated in one TLC run.  Steps are total: a mismatch does not disable *)
(* the step, it names the failing clause in `verdict`.                     *)
(***************************************************************************)
EXTENDS StoreModel

VARIABLES l, verdict

tvars == <<vars, tid, l, verdict>>

Ev == T.events[l]
SeqToSet(s) == {s[i] : i \in 1..Len(s)}
PairSet(s) == {<<s[i][1], s[i][2]>> : i \in 1..Len(s)}
MapOf(s) == [p \in {s[i][1] : i \in 1..Len(s)} |-> (CHOOSE x \in PairSet(s) : x[1] = p)[2]]

Verdict(ok, clause) == verdict' = IF ok THEN "ok" ELSE clause

TraceInit ==
  /\ tid \in 1..Len(Traces)
  /\ l = 1 /\ verdict = "ok"
  /\ Init

TStore == Ev.op = "store" /\ StoreBlob(Ev.k) /\ Verdict(Ev.ans = "ok", "store_blob raised")

THas == Ev.op = "has" /\ HasBlob(Ev.k)
        /\ Verdict(last'.b = <<"B", Ev.ans>>, "has_blob answer differs from the model")

TFetch == Ev.op = "fetch" /\ FetchBlob(Ev.k)
          /\ Verdict(last'.b = Ev.ans, "fetch_blob answer differs from the model")

(* a commit of a path with "." / ".." segments may be refused; C08 does not    *)
(* say whether the regular paths of the same batch are committed, so any       *)
(* subset of them may be (TLC branches, later answers decide); an accepted     *)
(* commit must stay inside the data directory                                  *)
DottedSet == {T.dotted[i] : i \in 1..Len(T.dotted)}
TSync ==
  /\ Ev.op = "sync"
  /\ IF Ev.ans = "refused"
     THEN /\ \E sub \in SUBSET {p \in DOMAIN MapOf(Ev.m) : p \notin DottedSet} :
               paths' = [p \in PathIds |-> IF p \in sub THEN MapOf(Ev.m)[p] ELSE paths[p]]
          /\ UNCHANGED <<blobs, cache, last, hist>>
          /\ Verdict(Ev.dotted, "sync_paths refused a regular path")
     ELSE /\ SyncPaths(MapOf(Ev.m))
          /\ Verdict(Ev.ans = "ok" /\ Ev.inside, IF Ev.inside THEN "sync_paths raised" ELSE "entry created outside the data directory")

TFetchPaths ==
  /\ Ev.op = "fetch_paths" /\ FetchPaths(SeqToSet(Ev.ps))
  /\ Verdict(IF Ev.ans[1] = "M" THEN last'.b = <<"M", PairSet(Ev.ans[2])>> ELSE last'.b = <<"missing">>,
             "fetch_paths answer differs from the model")

TReopen == Ev.op = "reopen" /\ Reopen /\ Verdict(TRUE, "")

TraceNext ==
  /\ l <= Len(T.events) /\ verdict = "ok"
  /\ l' = l + 1 /\ UNCHANGED tid
  /\ (TStore \/ THas \/ TFetch \/ TSync \/ TFetchPaths \/ TReopen)

TraceSpec == TraceInit /\ [][TraceNext]_tvars

Accepted == verdict = "ok"

(* every trace is judged: printed once, at its end or at the first failing    *)
(* clause (a step whose verdict is not "ok" has no successor)                  *)
Consumed == IF verdict # "ok" \/ l = Len(T.events) + 1
            THEN PrintT(<<"DONE", tid, verdict, l>>) ELSE TRUE
=============================================================================
