SPECIFICATION Spec
INVARIANT Invisible
INVARIANT Bounded
INVARIANT CacheCoherent
INVARIANT BlobRoundTrip
INVARIANT PathRoundTrip
VIEW DesignView
CHECK_DEADLOCK FALSE
