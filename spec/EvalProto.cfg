SPECIFICATION Spec
CONSTRAINT Judged
CHECK_DEADLOCK FALSE
