--------------------------- MODULE LocalStoreFSMC ---------------------------
(***************************************************************************)
(* Model-checking wrapper of LocalStoreFS: kill -9 of a client process     *)
(* (its program counter is lost, every completed file-system call is       *)
(* durable, private temporary files stay behind), and the properties.      *)
(***************************************************************************)
EXTENDS LocalStoreFS

Crash(p) ==
  /\ p \in Victims /\ ~Stopped(p)
  /\ \A v \in Victims : pc[v] # "Dead"            \* one crash per behaviour
  /\ pc' = [pc EXCEPT ![p] = "Dead"]
  /\ UNCHANGED <<dirs, blob, meta, link, tblob, tmeta, tlink, ret, err, hb, fb, fp, stack,
                 hk, fk, sk, yq, yk, pq, pos, cur, j>>

NextC == Next \/ \E p \in Victims : Crash(p)
SpecC == Init /\ [][NextC]_vars

(* the keys a path may legitimately serve: committed beforehand or kept by some script *)
KeysAt(q) == (IF q \in DOMAIN Precommitted THEN {Precommitted[q]} ELSE {})
             \cup {Script[p][i].k : <<p, i>> \in {x \in Procs \X (1..8) :
                     x[2] <= Len(Script[x[1]]) /\ Script[x[1]][x[2]].op = "keep" /\ Script[x[1]][x[2]].q = q}}
             \cup UNION {{Script[x[1]][x[2]].syncs[n][2] :
                            n \in {m \in 1..Len(Script[x[1]][x[2]].syncs) : Script[x[1]][x[2]].syncs[m][1] = q}} :
                         x \in {y \in Procs \X (1..8) : y[2] <= Len(Script[y[1]]) /\ Script[y[1]][y[2]].op = "evaln"}}

(* C06 / C07: every keep and load that returns, returns the complete correct value *)
ReturnedComplete ==
  \A p \in Procs : \A i \in 1..Len(ret[p]) :
    LET r == ret[p][i] IN
    IF r.op = "keep" THEN r.v = V(r.k) ELSE r.v \in {V(k) : k \in KeysAt(r.q)}

(* no process fails because of a crash of, or a race with, another one *)
NoFailure == \A p \in Procs : err[p] = ""

(* a committed path always resolves for a reader that starts now: the link and both files
   of its blob are complete (C06: "paths committed before the crash still load") *)
CommittedLoadable ==
  \A q \in DOMAIN Precommitted :
    (\A p \in Procs : Stopped(p)) => (LinkOk(q) /\ meta[link[q]] = Full /\ blob[link[q]] = Full)
=============================================================================
