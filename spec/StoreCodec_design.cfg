SPECIFICATION Spec
INVARIANT ReaderIsWriter
INVARIANT BuiltinVerbatim
VIEW DesignView
CHECK_DEADLOCK FALSE
