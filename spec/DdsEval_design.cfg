SPECIFICATION Spec
INVARIANT RetCorrect
INVARIANT Sound
INVARIANT IdempotentEval
INVARIANT PathsServed
PROPERTY NoRecompute
PROPERTY EnvIndependent
CONSTRAINT PlanConstraint
VIEW View
CHECK_DEADLOCK FALSE
