SPECIFICATION Spec
INVARIANT RetCorrect
INVARIANT Sound
INVARIANT IdempotentEval
INVARIANT PathsServed
INVARIANT GraphAcyclic
PROPERTY NoRecompute
PROPERTY EnvIndependent
PROPERTY FailClean
PROPERTY RejectClean
PROPERTY DryRun
PROPERTY DryRunPure
CONSTRAINT PlanConstraint
VIEW View
CHECK_DEADLOCK FALSE
