SPECIFICATION Spec
INVARIANT RetCorrect
PROPERTY RejectClean
CONSTRAINT PlanConstraint
VIEW View
CHECK_DEADLOCK FALSE
