SPECIFICATION Spec
INVARIANT Invisible
CONSTRAINT Dump
CHECK_DEADLOCK FALSE
