---------------------------- MODULE LocalStoreFS ----------------------------
(***************************************************************************)
(* dds.store.LocalFileStore as a sequence of file-system calls, one label  *)
(* per call, run by several client processes against one shared directory  *)
(* tree (C06 crash safety, C07 concurrent processes, C16 configurations).  *)
(*                                                                         *)
(* Files carry their write progress: w = 0 after open(..., "wb") (create   *)
(* or TRUNCATE), 1 after the first half of the data, 2 when complete, so   *)
(* torn writes are states.  Algo selects the write protocol:               *)
(*   "inplace"  blob written in place, then its metadata; has_blob looks   *)
(*              at the blob file only; link update = remove + symlink;     *)
(*              makedirs without exist_ok      (the pinned tree)           *)
(*   "atomic"   temporary file + rename for blob and metadata, metadata    *)
(*              last as the commit marker, has_blob = blob and metadata    *)
(*              present; link replaced by rename of a temporary link;      *)
(*              makedirs(exist_ok)                                          *)
(* FsConf (generated): Algo, Keys, Paths, Procs, Script, WaitFor, Victims, *)
(* Precommitted.                                                            *)
(*                                                                         *)
(* Script[p] is a sequence of client operations                            *)
(*   [op |-> "init"]             create the store object (directories)     *)
(*   [op |-> "keep", q, k]       evaluate a data function kept at path q   *)
(*                                whose current code has signature k       *)
(*   [op |-> "load", q]          dds.load(q)                               *)
(***************************************************************************)
EXTENDS Naturals, Sequences, FiniteSets, TLC, FsConf

NoFile == [ex |-> FALSE, w |-> 0]
Full   == [ex |-> TRUE, w |-> 2]
None   == <<"None">>
V(k)   == <<"V", k>>

(* --algorithm LocalStoreFS {
  variables
    dirs  = IF Precommitted = <<>> THEN {} ELSE {"internal", "data", "blobs", "sub"},
    blob  = [k \in Keys |-> IF k \in {Precommitted[q] : q \in DOMAIN Precommitted} THEN Full ELSE NoFile],
    meta  = [k \in Keys |-> IF k \in {Precommitted[q] : q \in DOMAIN Precommitted} THEN Full ELSE NoFile],
    link  = [q \in Paths |-> IF q \in DOMAIN Precommitted THEN Precommitted[q] ELSE "-"],
    tblob = [p \in Procs |-> [k |-> "-", f |-> NoFile]],   \* private temporary files ("atomic")
    tmeta = [p \in Procs |-> [k |-> "-", f |-> NoFile]],
    tlink = [p \in Procs |-> "-"],
    ret   = [p \in Procs |-> <<>>],      \* what each client operation returned
    err   = [p \in Procs |-> ""],        \* exception that ended the process, if any
    hb    = [p \in Procs |-> FALSE],     \* answer of the last has_blob
    fb    = [p \in Procs |-> None],      \* answer of the last fetch_blob
    fp    = [p \in Procs |-> "-"];       \* answer of the last fetch_paths

  define {
    LinkOk(q)  == link[q] # "-" /\ blob[link[q]].ex          \* os.path.exists follows the link
    Stopped(p) == pc[p] \in {"Done", "Dead"} \/ err[p] # ""
  }

  procedure StoreInit()
  { I1: if ("internal" \in dirs) { goto I3 };
    I2: if ("internal" \in dirs /\ Algo = "inplace") { err[self] := "FileExistsError"; goto IX }
        else { dirs := dirs \cup {"internal"} };
    I3: if ("data" \in dirs) { goto I5 };
    I4: if ("data" \in dirs /\ Algo = "inplace") { err[self] := "FileExistsError"; goto IX }
        else { dirs := dirs \cup {"data"} };
    I5: if ("blobs" \in dirs) { return };
    I6: if ("blobs" \in dirs /\ Algo = "inplace") { err[self] := "FileExistsError"; goto IX }
        else { dirs := dirs \cup {"blobs"} };
    I7: return;
    IX: await FALSE;
  }

  procedure HasBlob(hk)
  { H1: hb[self] := blob[hk].ex;
        if (Algo = "inplace" \/ ~blob[hk].ex) { return };
    H2: hb[self] := meta[hk].ex;
        return;
  }

  procedure FetchBlob(fk)
  { F1: if (fk \notin Keys) { fb[self] := None; return }
        else if (~blob[fk].ex) { fb[self] := None; return };
    F2: if (~meta[fk].ex) { fb[self] := None; return };
    F3: if (meta[fk].w < 2) { err[self] := "JSONDecodeError"; goto FX };       \* open + json.load of the metadata
    F4: if (~blob[fk].ex) { err[self] := "FileNotFoundError"; goto FX }          \* open + read of the blob
        else if (blob[fk].w < 2) { fb[self] := <<"partial", fk>>; return }
        else { fb[self] := V(fk); return };
    FX: await FALSE;
  }

  procedure StoreBlob(sk)
  { B0: if ("blobs" \notin dirs) { err[self] := "FileNotFoundError"; goto BX };
    B1: if (Algo = "inplace") { blob[sk] := [ex |-> TRUE, w |-> 0] }
        else { tblob[self] := [k |-> sk, f |-> [ex |-> TRUE, w |-> 0]] };
    B2: if (Algo = "inplace") { blob[sk].w := 1 } else { tblob[self].f.w := 1 };
    B3: if (Algo = "inplace") { blob[sk].w := 2 } else { tblob[self].f.w := 2 };
    B4: if (Algo = "atomic") { blob[sk] := tblob[self].f; tblob[self] := [k |-> "-", f |-> NoFile] };   \* rename
    B5: if (Algo = "inplace") { meta[sk] := [ex |-> TRUE, w |-> 0] }
        else { tmeta[self] := [k |-> sk, f |-> [ex |-> TRUE, w |-> 0]] };
    B6: if (Algo = "inplace") { meta[sk].w := 1 } else { tmeta[self].f.w := 1 };
    B7: if (Algo = "inplace") { meta[sk].w := 2 } else { tmeta[self].f.w := 2 };
    B8: if (Algo = "atomic") { meta[sk] := tmeta[self].f; tmeta[self] := [k |-> "-", f |-> NoFile] };
        return;
    BX: await FALSE;
  }

  procedure SyncPath(yq, yk)
  { Y1: if ("sub" \in dirs) { goto Y3 };
    Y2: if ("sub" \in dirs /\ Algo = "inplace") { err[self] := "FileExistsError"; goto YX }
        else { dirs := dirs \cup {"sub"} };
    Y3: if (LinkOk(yq) /\ link[yq] = yk) { return };                  \* exists(loc) and realpath(loc) = blob
    Y4: if (Algo = "atomic") { tlink[self] := yk; goto Y7 }            \* symlink(blob, temporary name)
        else if (~LinkOk(yq)) { goto Y6 };                            \* if os.path.exists(loc):
    Y5: if (link[yq] = "-") { err[self] := "FileNotFoundError"; goto YX } else { link[yq] := "-" };   \* os.remove(loc)
    Y6: if (link[yq] # "-") { err[self] := "FileExistsError"; goto YX } else { link[yq] := yk };      \* os.symlink(blob, loc)
    Y6r: return;
    Y7: link[yq] := tlink[self]; tlink[self] := "-";                  \* os.replace(temporary, loc)
        return;
    YX: await FALSE;
  }

  procedure FetchPath(pq)
  { P1: if ("sub" \notin dirs) { err[self] := "DDSException:no-such-path"; goto PX };
    P2: if (~LinkOk(pq)) { err[self] := "DDSException:no-such-path"; goto PX };
    P3: fp[self] := IF link[pq] = "-" THEN "garbage" ELSE link[pq];   \* realpath(loc), last component
        return;
    PX: await FALSE;
  }

  fair process (c \in Procs)
    variables pos = 1, cur = [op |-> "none"], j = 1;
  { W0: await \A w \in WaitFor[self] : Stopped(w);
    L0: while (pos <= Len(Script[self])) {
          cur := Script[self][pos];
          if (cur.op = "init") {
            call StoreInit();
          } else if (cur.op = "keep") {
            K1: call HasBlob(cur.k);
            K2: if (hb[self]) {
                  call FetchBlob(cur.k);
                } else {
                  K3: call StoreBlob(cur.k);
                  K4: fb[self] := V(cur.k);
                };
            K5: call SyncPath(cur.q, cur.k);
            K6: ret[self] := Append(ret[self], [op |-> "keep", q |-> cur.q, k |-> cur.k, v |-> fb[self]]);
          } else if (cur.op = "evaln") {
            \* one evaluation with nested keeps, as _eval_new_ctx does it: look every key up, store the
            \* missing ones (inner first), then commit all the paths in one go
            E0: j := 1;
            E1: while (j <= Len(cur.stores)) {
                  call HasBlob(cur.stores[j]);
              E2: if (hb[self]) {
                    call FetchBlob(cur.stores[j]);
                  } else {
                    E3: call StoreBlob(cur.stores[j]);
                    E3b: fb[self] := V(cur.stores[j]);
                  };
              E4: ret[self] := Append(ret[self], [op |-> "keep", q |-> "", k |-> cur.stores[j], v |-> fb[self]]);
                  j := j + 1;
                };
            E5: j := 1;
            E6: while (j <= Len(cur.syncs)) {
                  call SyncPath(cur.syncs[j][1], cur.syncs[j][2]);
              E7: j := j + 1;
                };
          } else {
            G1: call FetchPath(cur.q);
            G2: call FetchBlob(fp[self]);
            G3: ret[self] := Append(ret[self], [op |-> "load", q |-> cur.q, k |-> fp[self], v |-> fb[self]]);
          };
      N1: pos := pos + 1;
        };
  }
} *)
\* BEGIN TRANSLATION
CONSTANT defaultInitValue
VARIABLES pc, dirs, blob, meta, link, tblob, tmeta, tlink, ret, err, hb, fb, 
          fp, stack

(* define statement *)
LinkOk(q)  == link[q] # "-" /\ blob[link[q]].ex
Stopped(p) == pc[p] \in {"Done", "Dead"} \/ err[p] # ""

VARIABLES hk, fk, sk, yq, yk, pq, pos, cur, j

vars == << pc, dirs, blob, meta, link, tblob, tmeta, tlink, ret, err, hb, fb, 
           fp, stack, hk, fk, sk, yq, yk, pq, pos, cur, j >>

ProcSet == (Procs)

Init == (* Global variables *)
        /\ dirs = (IF Precommitted = <<>> THEN {} ELSE {"internal", "data", "blobs", "sub"})
        /\ blob = [k \in Keys |-> IF k \in {Precommitted[q] : q \in DOMAIN Precommitted} THEN Full ELSE NoFile]
        /\ meta = [k \in Keys |-> IF k \in {Precommitted[q] : q \in DOMAIN Precommitted} THEN Full ELSE NoFile]
        /\ link = [q \in Paths |-> IF q \in DOMAIN Precommitted THEN Precommitted[q] ELSE "-"]
        /\ tblob = [p \in Procs |-> [k |-> "-", f |-> NoFile]]
        /\ tmeta = [p \in Procs |-> [k |-> "-", f |-> NoFile]]
        /\ tlink = [p \in Procs |-> "-"]
        /\ ret = [p \in Procs |-> <<>>]
        /\ err = [p \in Procs |-> ""]
        /\ hb = [p \in Procs |-> FALSE]
        /\ fb = [p \in Procs |-> None]
        /\ fp = [p \in Procs |-> "-"]
        (* Procedure HasBlob *)
        /\ hk = [ self \in ProcSet |-> defaultInitValue]
        (* Procedure FetchBlob *)
        /\ fk = [ self \in ProcSet |-> defaultInitValue]
        (* Procedure StoreBlob *)
        /\ sk = [ self \in ProcSet |-> defaultInitValue]
        (* Procedure SyncPath *)
        /\ yq = [ self \in ProcSet |-> defaultInitValue]
        /\ yk = [ self \in ProcSet |-> defaultInitValue]
        (* Procedure FetchPath *)
        /\ pq = [ self \in ProcSet |-> defaultInitValue]
        (* Process c *)
        /\ pos = [self \in Procs |-> 1]
        /\ cur = [self \in Procs |-> [op |-> "none"]]
        /\ j = [self \in Procs |-> 1]
        /\ stack = [self \in ProcSet |-> << >>]
        /\ pc = [self \in ProcSet |-> "W0"]

I1(self) == /\ pc[self] = "I1"
            /\ IF "internal" \in dirs
                  THEN /\ pc' = [pc EXCEPT ![self] = "I3"]
                  ELSE /\ pc' = [pc EXCEPT ![self] = "I2"]
            /\ UNCHANGED << dirs, blob, meta, link, tblob, tmeta, tlink, ret, 
                            err, hb, fb, fp, stack, hk, fk, sk, yq, yk, pq, 
                            pos, cur, j >>

I2(self) == /\ pc[self] = "I2"
            /\ IF "internal" \in dirs /\ Algo = "inplace"
                  THEN /\ err' = [err EXCEPT ![self] = "FileExistsError"]
                       /\ pc' = [pc EXCEPT ![self] = "IX"]
                       /\ dirs' = dirs
                  ELSE /\ dirs' = (dirs \cup {"internal"})
                       /\ pc' = [pc EXCEPT ![self] = "I3"]
                       /\ err' = err
            /\ UNCHANGED << blob, meta, link, tblob, tmeta, tlink, ret, hb, fb, 
                            fp, stack, hk, fk, sk, yq, yk, pq, pos, cur, j >>

I3(self) == /\ pc[self] = "I3"
            /\ IF "data" \in dirs
                  THEN /\ pc' = [pc EXCEPT ![self] = "I5"]
                  ELSE /\ pc' = [pc EXCEPT ![self] = "I4"]
            /\ UNCHANGED << dirs, blob, meta, link, tblob, tmeta, tlink, ret, 
                            err, hb, fb, fp, stack, hk, fk, sk, yq, yk, pq, 
                            pos, cur, j >>

I4(self) == /\ pc[self] = "I4"
            /\ IF "data" \in dirs /\ Algo = "inplace"
                  THEN /\ err' = [err EXCEPT ![self] = "FileExistsError"]
                       /\ pc' = [pc EXCEPT ![self] = "IX"]
                       /\ dirs' = dirs
                  ELSE /\ dirs' = (dirs \cup {"data"})
                       /\ pc' = [pc EXCEPT ![self] = "I5"]
                       /\ err' = err
            /\ UNCHANGED << blob, meta, link, tblob, tmeta, tlink, ret, hb, fb, 
                            fp, stack, hk, fk, sk, yq, yk, pq, pos, cur, j >>

I5(self) == /\ pc[self] = "I5"
            /\ IF "blobs" \in dirs
                  THEN /\ pc' = [pc EXCEPT ![self] = Head(stack[self]).pc]
                       /\ stack' = [stack EXCEPT ![self] = Tail(stack[self])]
                  ELSE /\ pc' = [pc EXCEPT ![self] = "I6"]
                       /\ stack' = stack
            /\ UNCHANGED << dirs, blob, meta, link, tblob, tmeta, tlink, ret, 
                            err, hb, fb, fp, hk, fk, sk, yq, yk, pq, pos, cur, 
                            j >>

I6(self) == /\ pc[self] = "I6"
            /\ IF "blobs" \in dirs /\ Algo = "inplace"
                  THEN /\ err' = [err EXCEPT ![self] = "FileExistsError"]
                       /\ pc' = [pc EXCEPT ![self] = "IX"]
                       /\ dirs' = dirs
                  ELSE /\ dirs' = (dirs \cup {"blobs"})
                       /\ pc' = [pc EXCEPT ![self] = "I7"]
                       /\ err' = err
            /\ UNCHANGED << blob, meta, link, tblob, tmeta, tlink, ret, hb, fb, 
                            fp, stack, hk, fk, sk, yq, yk, pq, pos, cur, j >>

I7(self) == /\ pc[self] = "I7"
            /\ pc' = [pc EXCEPT ![self] = Head(stack[self]).pc]
            /\ stack' = [stack EXCEPT ![self] = Tail(stack[self])]
            /\ UNCHANGED << dirs, blob, meta, link, tblob, tmeta, tlink, ret, 
                            err, hb, fb, fp, hk, fk, sk, yq, yk, pq, pos, cur, 
                            j >>

IX(self) == /\ pc[self] = "IX"
            /\ FALSE
            /\ pc' = [pc EXCEPT ![self] = "Error"]
            /\ UNCHANGED << dirs, blob, meta, link, tblob, tmeta, tlink, ret, 
                            err, hb, fb, fp, stack, hk, fk, sk, yq, yk, pq, 
                            pos, cur, j >>

StoreInit(self) == I1(self) \/ I2(self) \/ I3(self) \/ I4(self) \/ I5(self)
                      \/ I6(self) \/ I7(self) \/ IX(self)

H1(self) == /\ pc[self] = "H1"
            /\ hb' = [hb EXCEPT ![self] = blob[hk[self]].ex]
            /\ IF Algo = "inplace" \/ ~blob[hk[self]].ex
                  THEN /\ pc' = [pc EXCEPT ![self] = Head(stack[self]).pc]
                       /\ hk' = [hk EXCEPT ![self] = Head(stack[self]).hk]
                       /\ stack' = [stack EXCEPT ![self] = Tail(stack[self])]
                  ELSE /\ pc' = [pc EXCEPT ![self] = "H2"]
                       /\ UNCHANGED << stack, hk >>
            /\ UNCHANGED << dirs, blob, meta, link, tblob, tmeta, tlink, ret, 
                            err, fb, fp, fk, sk, yq, yk, pq, pos, cur, j >>

H2(self) == /\ pc[self] = "H2"
            /\ hb' = [hb EXCEPT ![self] = meta[hk[self]].ex]
            /\ pc' = [pc EXCEPT ![self] = Head(stack[self]).pc]
            /\ hk' = [hk EXCEPT ![self] = Head(stack[self]).hk]
            /\ stack' = [stack EXCEPT ![self] = Tail(stack[self])]
            /\ UNCHANGED << dirs, blob, meta, link, tblob, tmeta, tlink, ret, 
                            err, fb, fp, fk, sk, yq, yk, pq, pos, cur, j >>

HasBlob(self) == H1(self) \/ H2(self)

F1(self) == /\ pc[self] = "F1"
            /\ IF fk[self] \notin Keys
                  THEN /\ fb' = [fb EXCEPT ![self] = None]
                       /\ pc' = [pc EXCEPT ![self] = Head(stack[self]).pc]
                       /\ fk' = [fk EXCEPT ![self] = Head(stack[self]).fk]
                       /\ stack' = [stack EXCEPT ![self] = Tail(stack[self])]
                  ELSE /\ IF ~blob[fk[self]].ex
                             THEN /\ fb' = [fb EXCEPT ![self] = None]
                                  /\ pc' = [pc EXCEPT ![self] = Head(stack[self]).pc]
                                  /\ fk' = [fk EXCEPT ![self] = Head(stack[self]).fk]
                                  /\ stack' = [stack EXCEPT ![self] = Tail(stack[self])]
                             ELSE /\ pc' = [pc EXCEPT ![self] = "F2"]
                                  /\ UNCHANGED << fb, stack, fk >>
            /\ UNCHANGED << dirs, blob, meta, link, tblob, tmeta, tlink, ret, 
                            err, hb, fp, hk, sk, yq, yk, pq, pos, cur, j >>

F2(self) == /\ pc[self] = "F2"
            /\ IF ~meta[fk[self]].ex
                  THEN /\ fb' = [fb EXCEPT ![self] = None]
                       /\ pc' = [pc EXCEPT ![self] = Head(stack[self]).pc]
                       /\ fk' = [fk EXCEPT ![self] = Head(stack[self]).fk]
                       /\ stack' = [stack EXCEPT ![self] = Tail(stack[self])]
                  ELSE /\ pc' = [pc EXCEPT ![self] = "F3"]
                       /\ UNCHANGED << fb, stack, fk >>
            /\ UNCHANGED << dirs, blob, meta, link, tblob, tmeta, tlink, ret, 
                            err, hb, fp, hk, sk, yq, yk, pq, pos, cur, j >>

F3(self) == /\ pc[self] = "F3"
            /\ IF meta[fk[self]].w < 2
                  THEN /\ err' = [err EXCEPT ![self] = "JSONDecodeError"]
                       /\ pc' = [pc EXCEPT ![self] = "FX"]
                  ELSE /\ pc' = [pc EXCEPT ![self] = "F4"]
                       /\ err' = err
            /\ UNCHANGED << dirs, blob, meta, link, tblob, tmeta, tlink, ret, 
                            hb, fb, fp, stack, hk, fk, sk, yq, yk, pq, pos, 
                            cur, j >>

F4(self) == /\ pc[self] = "F4"
            /\ IF ~blob[fk[self]].ex
                  THEN /\ err' = [err EXCEPT ![self] = "FileNotFoundError"]
                       /\ pc' = [pc EXCEPT ![self] = "FX"]
                       /\ UNCHANGED << fb, stack, fk >>
                  ELSE /\ IF blob[fk[self]].w < 2
                             THEN /\ fb' = [fb EXCEPT ![self] = <<"partial", fk[self]>>]
                                  /\ pc' = [pc EXCEPT ![self] = Head(stack[self]).pc]
                                  /\ fk' = [fk EXCEPT ![self] = Head(stack[self]).fk]
                                  /\ stack' = [stack EXCEPT ![self] = Tail(stack[self])]
                             ELSE /\ fb' = [fb EXCEPT ![self] = V(fk[self])]
                                  /\ pc' = [pc EXCEPT ![self] = Head(stack[self]).pc]
                                  /\ fk' = [fk EXCEPT ![self] = Head(stack[self]).fk]
                                  /\ stack' = [stack EXCEPT ![self] = Tail(stack[self])]
                       /\ err' = err
            /\ UNCHANGED << dirs, blob, meta, link, tblob, tmeta, tlink, ret, 
                            hb, fp, hk, sk, yq, yk, pq, pos, cur, j >>

FX(self) == /\ pc[self] = "FX"
            /\ FALSE
            /\ pc' = [pc EXCEPT ![self] = "Error"]
            /\ UNCHANGED << dirs, blob, meta, link, tblob, tmeta, tlink, ret, 
                            err, hb, fb, fp, stack, hk, fk, sk, yq, yk, pq, 
                            pos, cur, j >>

FetchBlob(self) == F1(self) \/ F2(self) \/ F3(self) \/ F4(self) \/ FX(self)

B0(self) == /\ pc[self] = "B0"
            /\ IF "blobs" \notin dirs
                  THEN /\ err' = [err EXCEPT ![self] = "FileNotFoundError"]
                       /\ pc' = [pc EXCEPT ![self] = "BX"]
                  ELSE /\ pc' = [pc EXCEPT ![self] = "B1"]
                       /\ err' = err
            /\ UNCHANGED << dirs, blob, meta, link, tblob, tmeta, tlink, ret, 
                            hb, fb, fp, stack, hk, fk, sk, yq, yk, pq, pos, 
                            cur, j >>

B1(self) == /\ pc[self] = "B1"
            /\ IF Algo = "inplace"
                  THEN /\ blob' = [blob EXCEPT ![sk[self]] = [ex |-> TRUE, w |-> 0]]
                       /\ tblob' = tblob
                  ELSE /\ tblob' = [tblob EXCEPT ![self] = [k |-> sk[self], f |-> [ex |-> TRUE, w |-> 0]]]
                       /\ blob' = blob
            /\ pc' = [pc EXCEPT ![self] = "B2"]
            /\ UNCHANGED << dirs, meta, link, tmeta, tlink, ret, err, hb, fb, 
                            fp, stack, hk, fk, sk, yq, yk, pq, pos, cur, j >>

B2(self) == /\ pc[self] = "B2"
            /\ IF Algo = "inplace"
                  THEN /\ blob' = [blob EXCEPT ![sk[self]].w = 1]
                       /\ tblob' = tblob
                  ELSE /\ tblob' = [tblob EXCEPT ![self].f.w = 1]
                       /\ blob' = blob
            /\ pc' = [pc EXCEPT ![self] = "B3"]
            /\ UNCHANGED << dirs, meta, link, tmeta, tlink, ret, err, hb, fb, 
                            fp, stack, hk, fk, sk, yq, yk, pq, pos, cur, j >>

B3(self) == /\ pc[self] = "B3"
            /\ IF Algo = "inplace"
                  THEN /\ blob' = [blob EXCEPT ![sk[self]].w = 2]
                       /\ tblob' = tblob
                  ELSE /\ tblob' = [tblob EXCEPT ![self].f.w = 2]
                       /\ blob' = blob
            /\ pc' = [pc EXCEPT ![self] = "B4"]
            /\ UNCHANGED << dirs, meta, link, tmeta, tlink, ret, err, hb, fb, 
                            fp, stack, hk, fk, sk, yq, yk, pq, pos, cur, j >>

B4(self) == /\ pc[self] = "B4"
            /\ IF Algo = "atomic"
                  THEN /\ blob' = [blob EXCEPT ![sk[self]] = tblob[self].f]
                       /\ tblob' = [tblob EXCEPT ![self] = [k |-> "-", f |-> NoFile]]
                  ELSE /\ TRUE
                       /\ UNCHANGED << blob, tblob >>
            /\ pc' = [pc EXCEPT ![self] = "B5"]
            /\ UNCHANGED << dirs, meta, link, tmeta, tlink, ret, err, hb, fb, 
                            fp, stack, hk, fk, sk, yq, yk, pq, pos, cur, j >>

B5(self) == /\ pc[self] = "B5"
            /\ IF Algo = "inplace"
                  THEN /\ meta' = [meta EXCEPT ![sk[self]] = [ex |-> TRUE, w |-> 0]]
                       /\ tmeta' = tmeta
                  ELSE /\ tmeta' = [tmeta EXCEPT ![self] = [k |-> sk[self], f |-> [ex |-> TRUE, w |-> 0]]]
                       /\ meta' = meta
            /\ pc' = [pc EXCEPT ![self] = "B6"]
            /\ UNCHANGED << dirs, blob, link, tblob, tlink, ret, err, hb, fb, 
                            fp, stack, hk, fk, sk, yq, yk, pq, pos, cur, j >>

B6(self) == /\ pc[self] = "B6"
            /\ IF Algo = "inplace"
                  THEN /\ meta' = [meta EXCEPT ![sk[self]].w = 1]
                       /\ tmeta' = tmeta
                  ELSE /\ tmeta' = [tmeta EXCEPT ![self].f.w = 1]
                       /\ meta' = meta
            /\ pc' = [pc EXCEPT ![self] = "B7"]
            /\ UNCHANGED << dirs, blob, link, tblob, tlink, ret, err, hb, fb, 
                            fp, stack, hk, fk, sk, yq, yk, pq, pos, cur, j >>

B7(self) == /\ pc[self] = "B7"
            /\ IF Algo = "inplace"
                  THEN /\ meta' = [meta EXCEPT ![sk[self]].w = 2]
                       /\ tmeta' = tmeta
                  ELSE /\ tmeta' = [tmeta EXCEPT ![self].f.w = 2]
                       /\ meta' = meta
            /\ pc' = [pc EXCEPT ![self] = "B8"]
            /\ UNCHANGED << dirs, blob, link, tblob, tlink, ret, err, hb, fb, 
                            fp, stack, hk, fk, sk, yq, yk, pq, pos, cur, j >>

B8(self) == /\ pc[self] = "B8"
            /\ IF Algo = "atomic"
                  THEN /\ meta' = [meta EXCEPT ![sk[self]] = tmeta[self].f]
                       /\ tmeta' = [tmeta EXCEPT ![self] = [k |-> "-", f |-> NoFile]]
                  ELSE /\ TRUE
                       /\ UNCHANGED << meta, tmeta >>
            /\ pc' = [pc EXCEPT ![self] = Head(stack[self]).pc]
            /\ sk' = [sk EXCEPT ![self] = Head(stack[self]).sk]
            /\ stack' = [stack EXCEPT ![self] = Tail(stack[self])]
            /\ UNCHANGED << dirs, blob, link, tblob, tlink, ret, err, hb, fb, 
                            fp, hk, fk, yq, yk, pq, pos, cur, j >>

BX(self) == /\ pc[self] = "BX"
            /\ FALSE
            /\ pc' = [pc EXCEPT ![self] = "Error"]
            /\ UNCHANGED << dirs, blob, meta, link, tblob, tmeta, tlink, ret, 
                            err, hb, fb, fp, stack, hk, fk, sk, yq, yk, pq, 
                            pos, cur, j >>

StoreBlob(self) == B0(self) \/ B1(self) \/ B2(self) \/ B3(self) \/ B4(self)
                      \/ B5(self) \/ B6(self) \/ B7(self) \/ B8(self)
                      \/ BX(self)

Y1(self) == /\ pc[self] = "Y1"
            /\ IF "sub" \in dirs
                  THEN /\ pc' = [pc EXCEPT ![self] = "Y3"]
                  ELSE /\ pc' = [pc EXCEPT ![self] = "Y2"]
            /\ UNCHANGED << dirs, blob, meta, link, tblob, tmeta, tlink, ret, 
                            err, hb, fb, fp, stack, hk, fk, sk, yq, yk, pq, 
                            pos, cur, j >>

Y2(self) == /\ pc[self] = "Y2"
            /\ IF "sub" \in dirs /\ Algo = "inplace"
                  THEN /\ err' = [err EXCEPT ![self] = "FileExistsError"]
                       /\ pc' = [pc EXCEPT ![self] = "YX"]
                       /\ dirs' = dirs
                  ELSE /\ dirs' = (dirs \cup {"sub"})
                       /\ pc' = [pc EXCEPT ![self] = "Y3"]
                       /\ err' = err
            /\ UNCHANGED << blob, meta, link, tblob, tmeta, tlink, ret, hb, fb, 
                            fp, stack, hk, fk, sk, yq, yk, pq, pos, cur, j >>

Y3(self) == /\ pc[self] = "Y3"
            /\ IF LinkOk(yq[self]) /\ link[yq[self]] = yk[self]
                  THEN /\ pc' = [pc EXCEPT ![self] = Head(stack[self]).pc]
                       /\ yq' = [yq EXCEPT ![self] = Head(stack[self]).yq]
                       /\ yk' = [yk EXCEPT ![self] = Head(stack[self]).yk]
                       /\ stack' = [stack EXCEPT ![self] = Tail(stack[self])]
                  ELSE /\ pc' = [pc EXCEPT ![self] = "Y4"]
                       /\ UNCHANGED << stack, yq, yk >>
            /\ UNCHANGED << dirs, blob, meta, link, tblob, tmeta, tlink, ret, 
                            err, hb, fb, fp, hk, fk, sk, pq, pos, cur, j >>

Y4(self) == /\ pc[self] = "Y4"
            /\ IF Algo = "atomic"
                  THEN /\ tlink' = [tlink EXCEPT ![self] = yk[self]]
                       /\ pc' = [pc EXCEPT ![self] = "Y7"]
                  ELSE /\ IF ~LinkOk(yq[self])
                             THEN /\ pc' = [pc EXCEPT ![self] = "Y6"]
                             ELSE /\ pc' = [pc EXCEPT ![self] = "Y5"]
                       /\ tlink' = tlink
            /\ UNCHANGED << dirs, blob, meta, link, tblob, tmeta, ret, err, hb, 
                            fb, fp, stack, hk, fk, sk, yq, yk, pq, pos, cur, j >>

Y5(self) == /\ pc[self] = "Y5"
            /\ IF link[yq[self]] = "-"
                  THEN /\ err' = [err EXCEPT ![self] = "FileNotFoundError"]
                       /\ pc' = [pc EXCEPT ![self] = "YX"]
                       /\ link' = link
                  ELSE /\ link' = [link EXCEPT ![yq[self]] = "-"]
                       /\ pc' = [pc EXCEPT ![self] = "Y6"]
                       /\ err' = err
            /\ UNCHANGED << dirs, blob, meta, tblob, tmeta, tlink, ret, hb, fb, 
                            fp, stack, hk, fk, sk, yq, yk, pq, pos, cur, j >>

Y6(self) == /\ pc[self] = "Y6"
            /\ IF link[yq[self]] # "-"
                  THEN /\ err' = [err EXCEPT ![self] = "FileExistsError"]
                       /\ pc' = [pc EXCEPT ![self] = "YX"]
                       /\ link' = link
                  ELSE /\ link' = [link EXCEPT ![yq[self]] = yk[self]]
                       /\ pc' = [pc EXCEPT ![self] = "Y6r"]
                       /\ err' = err
            /\ UNCHANGED << dirs, blob, meta, tblob, tmeta, tlink, ret, hb, fb, 
                            fp, stack, hk, fk, sk, yq, yk, pq, pos, cur, j >>

Y6r(self) == /\ pc[self] = "Y6r"
             /\ pc' = [pc EXCEPT ![self] = Head(stack[self]).pc]
             /\ yq' = [yq EXCEPT ![self] = Head(stack[self]).yq]
             /\ yk' = [yk EXCEPT ![self] = Head(stack[self]).yk]
             /\ stack' = [stack EXCEPT ![self] = Tail(stack[self])]
             /\ UNCHANGED << dirs, blob, meta, link, tblob, tmeta, tlink, ret, 
                             err, hb, fb, fp, hk, fk, sk, pq, pos, cur, j >>

Y7(self) == /\ pc[self] = "Y7"
            /\ link' = [link EXCEPT ![yq[self]] = tlink[self]]
            /\ tlink' = [tlink EXCEPT ![self] = "-"]
            /\ pc' = [pc EXCEPT ![self] = Head(stack[self]).pc]
            /\ yq' = [yq EXCEPT ![self] = Head(stack[self]).yq]
            /\ yk' = [yk EXCEPT ![self] = Head(stack[self]).yk]
            /\ stack' = [stack EXCEPT ![self] = Tail(stack[self])]
            /\ UNCHANGED << dirs, blob, meta, tblob, tmeta, ret, err, hb, fb, 
                            fp, hk, fk, sk, pq, pos, cur, j >>

YX(self) == /\ pc[self] = "YX"
            /\ FALSE
            /\ pc' = [pc EXCEPT ![self] = "Error"]
            /\ UNCHANGED << dirs, blob, meta, link, tblob, tmeta, tlink, ret, 
                            err, hb, fb, fp, stack, hk, fk, sk, yq, yk, pq, 
                            pos, cur, j >>

SyncPath(self) == Y1(self) \/ Y2(self) \/ Y3(self) \/ Y4(self) \/ Y5(self)
                     \/ Y6(self) \/ Y6r(self) \/ Y7(self) \/ YX(self)

P1(self) == /\ pc[self] = "P1"
            /\ IF "sub" \notin dirs
                  THEN /\ err' = [err EXCEPT ![self] = "DDSException:no-such-path"]
                       /\ pc' = [pc EXCEPT ![self] = "PX"]
                  ELSE /\ pc' = [pc EXCEPT ![self] = "P2"]
                       /\ err' = err
            /\ UNCHANGED << dirs, blob, meta, link, tblob, tmeta, tlink, ret, 
                            hb, fb, fp, stack, hk, fk, sk, yq, yk, pq, pos, 
                            cur, j >>

P2(self) == /\ pc[self] = "P2"
            /\ IF ~LinkOk(pq[self])
                  THEN /\ err' = [err EXCEPT ![self] = "DDSException:no-such-path"]
                       /\ pc' = [pc EXCEPT ![self] = "PX"]
                  ELSE /\ pc' = [pc EXCEPT ![self] = "P3"]
                       /\ err' = err
            /\ UNCHANGED << dirs, blob, meta, link, tblob, tmeta, tlink, ret, 
                            hb, fb, fp, stack, hk, fk, sk, yq, yk, pq, pos, 
                            cur, j >>

P3(self) == /\ pc[self] = "P3"
            /\ fp' = [fp EXCEPT ![self] = IF link[pq[self]] = "-" THEN "garbage" ELSE link[pq[self]]]
            /\ pc' = [pc EXCEPT ![self] = Head(stack[self]).pc]
            /\ pq' = [pq EXCEPT ![self] = Head(stack[self]).pq]
            /\ stack' = [stack EXCEPT ![self] = Tail(stack[self])]
            /\ UNCHANGED << dirs, blob, meta, link, tblob, tmeta, tlink, ret, 
                            err, hb, fb, hk, fk, sk, yq, yk, pos, cur, j >>

PX(self) == /\ pc[self] = "PX"
            /\ FALSE
            /\ pc' = [pc EXCEPT ![self] = "Error"]
            /\ UNCHANGED << dirs, blob, meta, link, tblob, tmeta, tlink, ret, 
                            err, hb, fb, fp, stack, hk, fk, sk, yq, yk, pq, 
                            pos, cur, j >>

FetchPath(self) == P1(self) \/ P2(self) \/ P3(self) \/ PX(self)

W0(self) == /\ pc[self] = "W0"
            /\ \A w \in WaitFor[self] : Stopped(w)
            /\ pc' = [pc EXCEPT ![self] = "L0"]
            /\ UNCHANGED << dirs, blob, meta, link, tblob, tmeta, tlink, ret, 
                            err, hb, fb, fp, stack, hk, fk, sk, yq, yk, pq, 
                            pos, cur, j >>

L0(self) == /\ pc[self] = "L0"
            /\ IF pos[self] <= Len(Script[self])
                  THEN /\ cur' = [cur EXCEPT ![self] = Script[self][pos[self]]]
                       /\ IF cur'[self].op = "init"
                             THEN /\ stack' = [stack EXCEPT ![self] = << [ procedure |->  "StoreInit",
                                                                           pc        |->  "N1" ] >>
                                                                       \o stack[self]]
                                  /\ pc' = [pc EXCEPT ![self] = "I1"]
                             ELSE /\ IF cur'[self].op = "keep"
                                        THEN /\ pc' = [pc EXCEPT ![self] = "K1"]
                                        ELSE /\ IF cur'[self].op = "evaln"
                                                   THEN /\ pc' = [pc EXCEPT ![self] = "E0"]
                                                   ELSE /\ pc' = [pc EXCEPT ![self] = "G1"]
                                  /\ stack' = stack
                  ELSE /\ pc' = [pc EXCEPT ![self] = "Done"]
                       /\ UNCHANGED << stack, cur >>
            /\ UNCHANGED << dirs, blob, meta, link, tblob, tmeta, tlink, ret, 
                            err, hb, fb, fp, hk, fk, sk, yq, yk, pq, pos, j >>

N1(self) == /\ pc[self] = "N1"
            /\ pos' = [pos EXCEPT ![self] = pos[self] + 1]
            /\ pc' = [pc EXCEPT ![self] = "L0"]
            /\ UNCHANGED << dirs, blob, meta, link, tblob, tmeta, tlink, ret, 
                            err, hb, fb, fp, stack, hk, fk, sk, yq, yk, pq, 
                            cur, j >>

K1(self) == /\ pc[self] = "K1"
            /\ /\ hk' = [hk EXCEPT ![self] = cur[self].k]
               /\ stack' = [stack EXCEPT ![self] = << [ procedure |->  "HasBlob",
                                                        pc        |->  "K2",
                                                        hk        |->  hk[self] ] >>
                                                    \o stack[self]]
            /\ pc' = [pc EXCEPT ![self] = "H1"]
            /\ UNCHANGED << dirs, blob, meta, link, tblob, tmeta, tlink, ret, 
                            err, hb, fb, fp, fk, sk, yq, yk, pq, pos, cur, j >>

K2(self) == /\ pc[self] = "K2"
            /\ IF hb[self]
                  THEN /\ /\ fk' = [fk EXCEPT ![self] = cur[self].k]
                          /\ stack' = [stack EXCEPT ![self] = << [ procedure |->  "FetchBlob",
                                                                   pc        |->  "K5",
                                                                   fk        |->  fk[self] ] >>
                                                               \o stack[self]]
                       /\ pc' = [pc EXCEPT ![self] = "F1"]
                  ELSE /\ pc' = [pc EXCEPT ![self] = "K3"]
                       /\ UNCHANGED << stack, fk >>
            /\ UNCHANGED << dirs, blob, meta, link, tblob, tmeta, tlink, ret, 
                            err, hb, fb, fp, hk, sk, yq, yk, pq, pos, cur, j >>

K3(self) == /\ pc[self] = "K3"
            /\ /\ sk' = [sk EXCEPT ![self] = cur[self].k]
               /\ stack' = [stack EXCEPT ![self] = << [ procedure |->  "StoreBlob",
                                                        pc        |->  "K4",
                                                        sk        |->  sk[self] ] >>
                                                    \o stack[self]]
            /\ pc' = [pc EXCEPT ![self] = "B0"]
            /\ UNCHANGED << dirs, blob, meta, link, tblob, tmeta, tlink, ret, 
                            err, hb, fb, fp, hk, fk, yq, yk, pq, pos, cur, j >>

K4(self) == /\ pc[self] = "K4"
            /\ fb' = [fb EXCEPT ![self] = V(cur[self].k)]
            /\ pc' = [pc EXCEPT ![self] = "K5"]
            /\ UNCHANGED << dirs, blob, meta, link, tblob, tmeta, tlink, ret, 
                            err, hb, fp, stack, hk, fk, sk, yq, yk, pq, pos, 
                            cur, j >>

K5(self) == /\ pc[self] = "K5"
            /\ /\ stack' = [stack EXCEPT ![self] = << [ procedure |->  "SyncPath",
                                                        pc        |->  "K6",
                                                        yq        |->  yq[self],
                                                        yk        |->  yk[self] ] >>
                                                    \o stack[self]]
               /\ yk' = [yk EXCEPT ![self] = cur[self].k]
               /\ yq' = [yq EXCEPT ![self] = cur[self].q]
            /\ pc' = [pc EXCEPT ![self] = "Y1"]
            /\ UNCHANGED << dirs, blob, meta, link, tblob, tmeta, tlink, ret, 
                            err, hb, fb, fp, hk, fk, sk, pq, pos, cur, j >>

K6(self) == /\ pc[self] = "K6"
            /\ ret' = [ret EXCEPT ![self] = Append(ret[self], [op |-> "keep", q |-> cur[self].q, k |-> cur[self].k, v |-> fb[self]])]
            /\ pc' = [pc EXCEPT ![self] = "N1"]
            /\ UNCHANGED << dirs, blob, meta, link, tblob, tmeta, tlink, err, 
                            hb, fb, fp, stack, hk, fk, sk, yq, yk, pq, pos, 
                            cur, j >>

E0(self) == /\ pc[self] = "E0"
            /\ j' = [j EXCEPT ![self] = 1]
            /\ pc' = [pc EXCEPT ![self] = "E1"]
            /\ UNCHANGED << dirs, blob, meta, link, tblob, tmeta, tlink, ret, 
                            err, hb, fb, fp, stack, hk, fk, sk, yq, yk, pq, 
                            pos, cur >>

E1(self) == /\ pc[self] = "E1"
            /\ IF j[self] <= Len(cur[self].stores)
                  THEN /\ /\ hk' = [hk EXCEPT ![self] = cur[self].stores[j[self]]]
                          /\ stack' = [stack EXCEPT ![self] = << [ procedure |->  "HasBlob",
                                                                   pc        |->  "E2",
                                                                   hk        |->  hk[self] ] >>
                                                               \o stack[self]]
                       /\ pc' = [pc EXCEPT ![self] = "H1"]
                  ELSE /\ pc' = [pc EXCEPT ![self] = "E5"]
                       /\ UNCHANGED << stack, hk >>
            /\ UNCHANGED << dirs, blob, meta, link, tblob, tmeta, tlink, ret, 
                            err, hb, fb, fp, fk, sk, yq, yk, pq, pos, cur, j >>

E2(self) == /\ pc[self] = "E2"
            /\ IF hb[self]
                  THEN /\ /\ fk' = [fk EXCEPT ![self] = cur[self].stores[j[self]]]
                          /\ stack' = [stack EXCEPT ![self] = << [ procedure |->  "FetchBlob",
                                                                   pc        |->  "E4",
                                                                   fk        |->  fk[self] ] >>
                                                               \o stack[self]]
                       /\ pc' = [pc EXCEPT ![self] = "F1"]
                  ELSE /\ pc' = [pc EXCEPT ![self] = "E3"]
                       /\ UNCHANGED << stack, fk >>
            /\ UNCHANGED << dirs, blob, meta, link, tblob, tmeta, tlink, ret, 
                            err, hb, fb, fp, hk, sk, yq, yk, pq, pos, cur, j >>

E3(self) == /\ pc[self] = "E3"
            /\ /\ sk' = [sk EXCEPT ![self] = cur[self].stores[j[self]]]
               /\ stack' = [stack EXCEPT ![self] = << [ procedure |->  "StoreBlob",
                                                        pc        |->  "E3b",
                                                        sk        |->  sk[self] ] >>
                                                    \o stack[self]]
            /\ pc' = [pc EXCEPT ![self] = "B0"]
            /\ UNCHANGED << dirs, blob, meta, link, tblob, tmeta, tlink, ret, 
                            err, hb, fb, fp, hk, fk, yq, yk, pq, pos, cur, j >>

E3b(self) == /\ pc[self] = "E3b"
             /\ fb' = [fb EXCEPT ![self] = V(cur[self].stores[j[self]])]
             /\ pc' = [pc EXCEPT ![self] = "E4"]
             /\ UNCHANGED << dirs, blob, meta, link, tblob, tmeta, tlink, ret, 
                             err, hb, fp, stack, hk, fk, sk, yq, yk, pq, pos, 
                             cur, j >>

E4(self) == /\ pc[self] = "E4"
            /\ ret' = [ret EXCEPT ![self] = Append(ret[self], [op |-> "keep", q |-> "", k |-> cur[self].stores[j[self]], v |-> fb[self]])]
            /\ j' = [j EXCEPT ![self] = j[self] + 1]
            /\ pc' = [pc EXCEPT ![self] = "E1"]
            /\ UNCHANGED << dirs, blob, meta, link, tblob, tmeta, tlink, err, 
                            hb, fb, fp, stack, hk, fk, sk, yq, yk, pq, pos, 
                            cur >>

E5(self) == /\ pc[self] = "E5"
            /\ j' = [j EXCEPT ![self] = 1]
            /\ pc' = [pc EXCEPT ![self] = "E6"]
            /\ UNCHANGED << dirs, blob, meta, link, tblob, tmeta, tlink, ret, 
                            err, hb, fb, fp, stack, hk, fk, sk, yq, yk, pq, 
                            pos, cur >>

E6(self) == /\ pc[self] = "E6"
            /\ IF j[self] <= Len(cur[self].syncs)
                  THEN /\ /\ stack' = [stack EXCEPT ![self] = << [ procedure |->  "SyncPath",
                                                                   pc        |->  "E7",
                                                                   yq        |->  yq[self],
                                                                   yk        |->  yk[self] ] >>
                                                               \o stack[self]]
                          /\ yk' = [yk EXCEPT ![self] = cur[self].syncs[j[self]][2]]
                          /\ yq' = [yq EXCEPT ![self] = cur[self].syncs[j[self]][1]]
                       /\ pc' = [pc EXCEPT ![self] = "Y1"]
                  ELSE /\ pc' = [pc EXCEPT ![self] = "N1"]
                       /\ UNCHANGED << stack, yq, yk >>
            /\ UNCHANGED << dirs, blob, meta, link, tblob, tmeta, tlink, ret, 
                            err, hb, fb, fp, hk, fk, sk, pq, pos, cur, j >>

E7(self) == /\ pc[self] = "E7"
            /\ j' = [j EXCEPT ![self] = j[self] + 1]
            /\ pc' = [pc EXCEPT ![self] = "E6"]
            /\ UNCHANGED << dirs, blob, meta, link, tblob, tmeta, tlink, ret, 
                            err, hb, fb, fp, stack, hk, fk, sk, yq, yk, pq, 
                            pos, cur >>

G1(self) == /\ pc[self] = "G1"
            /\ /\ pq' = [pq EXCEPT ![self] = cur[self].q]
               /\ stack' = [stack EXCEPT ![self] = << [ procedure |->  "FetchPath",
                                                        pc        |->  "G2",
                                                        pq        |->  pq[self] ] >>
                                                    \o stack[self]]
            /\ pc' = [pc EXCEPT ![self] = "P1"]
            /\ UNCHANGED << dirs, blob, meta, link, tblob, tmeta, tlink, ret, 
                            err, hb, fb, fp, hk, fk, sk, yq, yk, pos, cur, j >>

G2(self) == /\ pc[self] = "G2"
            /\ /\ fk' = [fk EXCEPT ![self] = fp[self]]
               /\ stack' = [stack EXCEPT ![self] = << [ procedure |->  "FetchBlob",
                                                        pc        |->  "G3",
                                                        fk        |->  fk[self] ] >>
                                                    \o stack[self]]
            /\ pc' = [pc EXCEPT ![self] = "F1"]
            /\ UNCHANGED << dirs, blob, meta, link, tblob, tmeta, tlink, ret, 
                            err, hb, fb, fp, hk, sk, yq, yk, pq, pos, cur, j >>

G3(self) == /\ pc[self] = "G3"
            /\ ret' = [ret EXCEPT ![self] = Append(ret[self], [op |-> "load", q |-> cur[self].q, k |-> fp[self], v |-> fb[self]])]
            /\ pc' = [pc EXCEPT ![self] = "N1"]
            /\ UNCHANGED << dirs, blob, meta, link, tblob, tmeta, tlink, err, 
                            hb, fb, fp, stack, hk, fk, sk, yq, yk, pq, pos, 
                            cur, j >>

c(self) == W0(self) \/ L0(self) \/ N1(self) \/ K1(self) \/ K2(self)
              \/ K3(self) \/ K4(self) \/ K5(self) \/ K6(self) \/ E0(self)
              \/ E1(self) \/ E2(self) \/ E3(self) \/ E3b(self) \/ E4(self)
              \/ E5(self) \/ E6(self) \/ E7(self) \/ G1(self) \/ G2(self)
              \/ G3(self)

(* Allow infinite stuttering to prevent deadlock on termination. *)
Terminating == /\ \A self \in ProcSet: pc[self] = "Done"
               /\ UNCHANGED vars

Next == (\E self \in ProcSet:  \/ StoreInit(self) \/ HasBlob(self)
                               \/ FetchBlob(self) \/ StoreBlob(self)
                               \/ SyncPath(self) \/ FetchPath(self))
           \/ (\E self \in Procs: c(self))
           \/ Terminating

Spec == /\ Init /\ [][Next]_vars
        /\ \A self \in Procs : /\ WF_vars(c(self))
                               /\ WF_vars(StoreInit(self))
                               /\ WF_vars(HasBlob(self))
                               /\ WF_vars(FetchBlob(self))
                               /\ WF_vars(StoreBlob(self))
                               /\ WF_vars(SyncPath(self))
                               /\ WF_vars(FetchPath(self))

Termination == <>(\A self \in ProcSet: pc[self] = "Done")

\* END TRANSLATION
=============================================================================
