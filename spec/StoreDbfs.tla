------------------------------ MODULE StoreDbfs ------------------------------
(***************************************************************************)
(* C19: the Databricks store over a dbutils.fs file system.                *)
(* Files: blob and metadata per key in the internal directory; for a path, *)
(* a copy of the blob under the data directory and a redirect record       *)
(* (_dds_meta/<path>).  The commit type, given with its *documented*       *)
(* spelling, decides what a path commit writes:                            *)
(*   "full"        byte-identical copy + record                            *)
(*   "links_only"  record only                                             *)
(*   "none"        nothing                                                 *)
(* keep returns the value under all three; load works iff the record       *)
(* exists.  Blobs planted with a legacy codec reference (dbfs.pickle /     *)
(* dbfs.string / dbfs.bytes) are decoded by the codec of the same kind.    *)
(* DbfsConf (generated): Commit, Keys, KindOf, Paths, LegacyRefs, MaxOps.  *)
(***************************************************************************)
EXTENDS Naturals, Sequences, FiniteSets, TLC, Json, DbfsConf

VARIABLES blobs,    \* [key -> "-" | codec reference recorded in its metadata]
          copies,   \* [path -> "-" | key whose bytes sit under the data directory]
          records,  \* [path -> "-" | key in the redirect record]
          last, hist
vars == <<blobs, copies, records, last, hist>>

V(k) == <<"V", k>>
RefKind(r) == CASE r \in {"local.string", "dbfs.string"} -> "str"
                [] r \in {"local.bytes", "dbfs.bytes"}   -> "bytes"
                [] r \in {"local.pickle", "dbfs.pickle"} -> "pickle"
                [] OTHER -> "other"
CurrentRef(k) == CASE KindOf[k] = "str" -> "local.string" [] KindOf[k] = "bytes" -> "local.bytes" [] OTHER -> "local.pickle"
LegacyRef(k)  == CASE KindOf[k] = "str" -> "dbfs.string" [] KindOf[k] = "bytes" -> "dbfs.bytes" [] OTHER -> "dbfs.pickle"

Record(op, q, k, ans) ==
  /\ last' = [op |-> op, q |-> q, k |-> k, ans |-> ans]
  /\ hist' = Append(hist, [op |-> op, q |-> q, k |-> k, ans |-> ans])
CanOp == Len(hist) < MaxOps

(* dds.keep(q, f): has_blob = metadata present; store if absent; then the path commit *)
Keep(q, k) ==
  /\ CanOp
  /\ blobs' = IF blobs[k] = "-" THEN [blobs EXCEPT ![k] = CurrentRef(k)] ELSE blobs
  /\ copies' = IF Commit = "full" THEN [copies EXCEPT ![q] = k] ELSE copies
  /\ records' = IF Commit \in {"full", "links_only"} THEN [records EXCEPT ![q] = k] ELSE records
  /\ Record("keep", q, k, [executed |-> blobs[k] = "-", value |-> V(k), kind |-> RefKind(IF blobs[k] = "-" THEN CurrentRef(k) ELSE blobs[k])])

Load(q) ==
  /\ CanOp
  /\ Record("load", q, "", IF records[q] = "-" THEN [executed |-> FALSE, value |-> <<"missing">>, kind |-> ""]
                           ELSE [executed |-> FALSE, value |-> V(records[q]), kind |-> RefKind(blobs[records[q]])])
  /\ UNCHANGED <<blobs, copies, records>>

(* a blob written by an older version of the library: same bytes, legacy reference *)
PlantLegacy(k) ==
  /\ CanOp /\ blobs[k] = "-"
  /\ blobs' = [blobs EXCEPT ![k] = LegacyRef(k)]
  /\ Record("plant", "", k, [executed |-> FALSE, value |-> <<"ok">>, kind |-> RefKind(LegacyRef(k))])
  /\ UNCHANGED <<copies, records>>

Init == /\ blobs = [k \in Keys |-> "-"] /\ copies = [q \in Paths |-> "-"] /\ records = [q \in Paths |-> "-"]
        /\ last = [op |-> "init", q |-> "", k |-> "", ans |-> [executed |-> FALSE, value |-> <<"ok">>, kind |-> ""]]
        /\ hist = <<>>
Next == \/ \E q \in Paths, k \in Keys : Keep(q, k)
        \/ \E q \in Paths : Load(q)
        \/ \E k \in Keys : PlantLegacy(k)
Spec == Init /\ [][Next]_vars

CommitHonoured ==
  /\ Commit = "none" => \A q \in Paths : copies[q] = "-" /\ records[q] = "-"
  /\ Commit = "links_only" => \A q \in Paths : copies[q] = "-"
  /\ Commit = "full" => \A q \in Paths : copies[q] = records[q]
LoadIffRecord == last.op = "load" => ((last.ans.value = <<"missing">>) <=> (records[last.q] = "-"))
(* the decoding codec has the kind of the value, whichever generation of reference the blob carries *)
LegacyKind == \A k \in Keys : blobs[k] # "-" => RefKind(blobs[k]) = KindOf[k]

Dump == IF GenMode /\ Len(hist) = MaxOps THEN PrintT(<<"HIST", ToJson(hist)>>) ELSE TRUE
DesignView == <<blobs, copies, records, last>>
=============================================================================
