------------------------------ MODULE StoreDbfs ------------------------------
(***************************************************************************)
(* C19: the Databricks store over a dbutils.fs file system.                *)
(* Files: blob and metadata per key in the internal directory; for a path, *)
(* a copy of the blob under the data directory and a redirect record       *)
(* (_dds_meta/<path>).  The commit type, given with its *documented*       *)
(* spelling, decides what a path commit writes:                            *)
(*   "full"        byte-identical copy + record                            *)
(*   "links_only"  record only                                             *)
(*   "none"        nothing                                                 *)
(* keep returns the value under all three; load works iff the record       *)
(* exists.  Blobs planted with a legacy codec reference (dbfs.pickle /     *)
(* dbfs.string / dbfs.bytes) are decoded by the codec of the same kind.    *)
(* The commit type belongs to the store handle: a process may configure    *)
(* the store again (SetCommit) over the same directories, e.g. a data      *)
(* directory first fed with "links_only" and later with "full".            *)
(* DbfsConf (generated): Commit (initial), Commits (reconfigurable to),    *)
(* Keys, KindOf, Paths, MaxOps.                                            *)
(***************************************************************************)
EXTENDS Naturals, Sequences, FiniteSets, TLC, Json, DbfsConf

VARIABLES blobs,    \* [key -> "-" | codec reference recorded in its metadata]
          copies,   \* [path -> "-" | key whose bytes sit under the data directory]
          records,  \* [path -> "-" | key in the redirect record]
          commit,   \* commit type of the current store handle
          last, hist
vars == <<blobs, copies, records, commit, last, hist>>

V(k) == <<"V", k>>
RefKind(r) == CASE r \in {"local.string", "dbfs.string"} -> "str"
                [] r \in {"local.bytes", "dbfs.bytes"}   -> "bytes"
                [] r \in {"local.pickle", "dbfs.pickle"} -> "pickle"
                [] OTHER -> "other"
CurrentRef(k) == CASE KindOf[k] = "str" -> "local.string" [] KindOf[k] = "bytes" -> "local.bytes" [] OTHER -> "local.pickle"
LegacyRef(k)  == CASE KindOf[k] = "str" -> "dbfs.string" [] KindOf[k] = "bytes" -> "dbfs.bytes" [] OTHER -> "dbfs.pickle"

Record(op, q, k, ans) ==
  /\ last' = [op |-> op, q |-> q, k |-> k, ans |-> ans]
  /\ hist' = Append(hist, [op |-> op, q |-> q, k |-> k, ans |-> ans])
CanOp == Len(hist) < MaxOps

(* dds.keep(q, f): has_blob = metadata present; store if absent; then the path commit *)
Keep(q, k) ==
  /\ CanOp
  /\ blobs' = IF blobs[k] = "-" THEN [blobs EXCEPT ![k] = CurrentRef(k)] ELSE blobs
  /\ copies' = IF commit = "full" THEN [copies EXCEPT ![q] = k] ELSE copies
  /\ records' = IF commit \in {"full", "links_only"} THEN [records EXCEPT ![q] = k] ELSE records
  /\ UNCHANGED commit
  /\ Record("keep", q, k, [executed |-> blobs[k] = "-", value |-> V(k), kind |-> RefKind(IF blobs[k] = "-" THEN CurrentRef(k) ELSE blobs[k])])

Load(q) ==
  /\ CanOp
  /\ Record("load", q, "", IF records[q] = "-" THEN [executed |-> FALSE, value |-> <<"missing">>, kind |-> ""]
                           ELSE [executed |-> FALSE, value |-> V(records[q]), kind |-> RefKind(blobs[records[q]])])
  /\ UNCHANGED <<blobs, copies, records, commit>>

(* a blob written by an older version of the library: same bytes, legacy reference *)
PlantLegacy(k) ==
  /\ CanOp /\ blobs[k] = "-"
  /\ blobs' = [blobs EXCEPT ![k] = LegacyRef(k)]
  /\ Record("plant", "", k, [executed |-> FALSE, value |-> <<"ok">>, kind |-> RefKind(LegacyRef(k))])
  /\ UNCHANGED <<copies, records, commit>>

(* dds.set_store("dbfs", <same directories>, commit_type = c): a new handle, nothing is written *)
SetCommit(c) ==
  /\ CanOp /\ c # commit
  /\ commit' = c
  /\ Record("config", "", c, [executed |-> FALSE, value |-> <<"ok">>, kind |-> ""])
  /\ UNCHANGED <<blobs, copies, records>>

Init == /\ blobs = [k \in Keys |-> "-"] /\ copies = [q \in Paths |-> "-"] /\ records = [q \in Paths |-> "-"]
        /\ last = [op |-> "init", q |-> "", k |-> "", ans |-> [executed |-> FALSE, value |-> <<"ok">>, kind |-> ""]]
        /\ hist = <<>> /\ commit = Commit
Next == \/ \E q \in Paths, k \in Keys : Keep(q, k)
        \/ \E q \in Paths : Load(q)
        \/ \E k \in Keys : PlantLegacy(k)
        \/ \E c \in Commits : SetCommit(c)
Spec == Init /\ [][Next]_vars

(* with one commit type for the whole history *)
CommitHonoured == Commits = {} =>
  /\ Commit = "none" => \A q \in Paths : copies[q] = "-" /\ records[q] = "-"
  /\ Commit = "links_only" => \A q \in Paths : copies[q] = "-"
  /\ Commit = "full" => \A q \in Paths : copies[q] = records[q]
(* per step, whatever the handles before did *)
CommitStep == [][/\ commit = "none" => UNCHANGED <<copies, records>>
                 /\ commit = "links_only" => UNCHANGED copies
                 /\ (last'.op = "keep" /\ commit = "full") => copies'[last'.q] = last'.k /\ records'[last'.q] = last'.k
                 /\ (last'.op = "keep" /\ commit = "links_only") => records'[last'.q] = last'.k]_vars
(* a copy never sits under a path without a record *)
CopyHasRecord == \A q \in Paths : copies[q] # "-" => records[q] # "-"
LoadIffRecord == last.op = "load" => ((last.ans.value = <<"missing">>) <=> (records[last.q] = "-"))
(* the decoding codec has the kind of the value, whichever generation of reference the blob carries *)
LegacyKind == \A k \in Keys : blobs[k] # "-" => RefKind(blobs[k]) = KindOf[k]

Dump == IF GenMode /\ Len(hist) = MaxOps THEN PrintT(<<"HIST", ToJson(hist)>>) ELSE TRUE
DesignView == <<blobs, copies, records, commit, last>>
=============================================================================
