-------------------------- MODULE LocalStoreFSTrace --------------------------
(***************************************************************************)
(* Conformance of the real LocalFileStore with the algorithm model.        *)
(* A single client process of LocalStoreFS runs its script; every step of  *)
(* the model that *mutates* the file system corresponds to one recorded    *)
(* mutating call of the real code (mkdir / open-for-write / each half of a *)
(* write / rename / remove / symlink, classified by what they touch: the   *)
(* blob, its metadata, a directory, the link of a path); steps that only   *)
(* look at the file system are silent.  The recorded sequence must be      *)
(* exactly the sequence the model performs: then the design-level results  *)
(* of LocalStoreFSMC for this write protocol transfer to the code.         *)
(* Steps are total: the first mismatch is recorded in `verdict`.           *)
(***************************************************************************)
EXTENDS LocalStoreFS, Json, IOUtils

Trace == JsonDeserialize(IOEnv.TRACE_FILE)     \* sequence of <<kind, what>>

VARIABLES l, verdict
tvars == <<vars, l, verdict>>

P == CHOOSE p \in Procs : TRUE                  \* the single client

Silent == <<"-", "-">>
(* the file-system mutation performed by the next step of the client, from its label *)
EvOf ==
  LET lab == pc[P] IN
  CASE lab = "I2" -> <<"mkdir", "internal">>
    [] lab = "I4" -> <<"mkdir", "data">>
    [] lab = "I6" -> <<"mkdir", "blobs">>
    [] lab = "B1" -> <<"open", "blob">>
    [] lab = "B2" -> <<"write1", "blob">>
    [] lab = "B3" -> <<"write2", "blob">>
    [] lab = "B4" -> IF Algo = "atomic" THEN <<"rename", "blob">> ELSE Silent
    [] lab = "B5" -> <<"open", "meta">>
    [] lab = "B6" -> <<"write1", "meta">>
    [] lab = "B7" -> <<"write2", "meta">>
    [] lab = "B8" -> IF Algo = "atomic" THEN <<"rename", "meta">> ELSE Silent
    [] lab = "Y2" -> <<"mkdir", "sub">>
    [] lab = "Y4" -> IF Algo = "atomic" THEN <<"symlink", "tmp">> ELSE Silent
    [] lab = "Y5" -> <<"remove", "link">>
    [] lab = "Y6" -> <<"symlink", "link">>
    [] lab = "Y7" -> <<"rename", "link">>
    [] OTHER -> Silent

TInit == Init /\ l = 1 /\ verdict = <<"ok">>

TNext ==
  /\ verdict = <<"ok">>
  /\ Next
  /\ LET e == EvOf IN
     IF e = Silent THEN l' = l /\ verdict' = verdict
     ELSE IF l <= Len(Trace) /\ Trace[l][1] = e[1] /\ Trace[l][2] = e[2]
          THEN l' = l + 1 /\ verdict' = verdict
          ELSE /\ l' = l
               /\ verdict' = <<"mismatch", l, e, IF l <= Len(Trace) THEN Trace[l] ELSE <<"end", "of trace">>>>

TSpec == TInit /\ [][TNext]_tvars

Finished == pc[P] = "Done" \/ err[P] # ""
Judged ==
  IF verdict # <<"ok">> \/ Finished
  THEN PrintT(<<"DONE", ToJson([verdict |-> verdict, consumed |-> l - 1, total |-> Len(Trace),
                                finished |-> Finished, err |-> err[P]])>>)
  ELSE TRUE
=============================================================================
