------------------------------- MODULE FsTrace -------------------------------
(***************************************************************************)
(* The POSIX subset the local store relies on (DESIGN.md 4.5), as a model  *)
(* that consumes recorded call traces of the real code: every recorded     *)
(* call is applied to the modelled tree, its recorded outcome (success or  *)
(* which error; the kind of entry stat saw; the target readlink returned)  *)
(* must be the one the model predicts, and at the end -- or at the kill    *)
(* point of a killed process -- the modelled tree must equal the snapshot  *)
(* of the real directory tree.  This validates the interposition shim and  *)
(* the model against each other: completed calls are durable, nothing else *)
(* changes the tree.                                                       *)
(*                                                                         *)
(* A trace: [init |-> entries, events |-> calls, final |-> entries], an    *)
(* entry is <<path, type, target>> with type in {"dir","file","link"}.     *)
(* Steps are total: mismatches are collected in `bad`.                     *)
(***************************************************************************)
EXTENDS Naturals, Sequences, FiniteSets, TLC, Json, IOUtils

Traces == JsonDeserialize(IOEnv.TRACE_FILE)

VARIABLES tid, l, fs, bad
vars == <<tid, l, fs, bad>>

T  == Traces[tid]
Ev == T.events[l]

Entry(e) == [t |-> e[2], tg |-> e[3], w |-> 2]
TreeOf(es) == [p \in {es[i][1] : i \in 1..Len(es)} |->
                 Entry(es[CHOOSE i \in 1..Len(es) : es[i][1] = p])]

Exists(p) == p \in DOMAIN fs
IsDir(p)  == Exists(p) /\ fs[p].t = "dir"
Res1(p)   == IF Exists(p) /\ fs[p].t = "link" THEN fs[p].tg ELSE p
Follow(p) == Res1(Res1(Res1(p)))
Without(p) == [x \in DOMAIN fs \ {p} |-> fs[x]]
With(p, e) == [x \in DOMAIN fs \cup {p} |-> IF x = p THEN e ELSE fs[x]]

(* predicted outcome of a call: <<ok, result>> *)
Predict(e) ==
  CASE e.op = "stat"    -> IF Exists(Follow(e.p)) /\ fs[Follow(e.p)].t # "link"
                           THEN <<TRUE, fs[Follow(e.p)].t>> ELSE <<FALSE, "FileNotFoundError">>
    [] e.op = "lstat"   -> IF Exists(e.p) THEN <<TRUE, fs[e.p].t>> ELSE <<FALSE, "FileNotFoundError">>
    [] e.op = "mkdir"   -> IF Exists(e.p) THEN <<FALSE, "FileExistsError">>
                           ELSE IF ~IsDir(e.par) THEN <<FALSE, "FileNotFoundError">> ELSE <<TRUE, "">>
    [] e.op = "open_w"  -> IF IsDir(e.p) THEN <<FALSE, "IsADirectoryError">>
                           ELSE IF ~IsDir(e.par) THEN <<FALSE, "FileNotFoundError">> ELSE <<TRUE, "">>
    [] e.op = "open_r"  -> IF Exists(Follow(e.p)) /\ fs[Follow(e.p)].t = "file" THEN <<TRUE, "">>
                           ELSE IF IsDir(Follow(e.p)) THEN <<FALSE, "IsADirectoryError">>
                           ELSE <<FALSE, "FileNotFoundError">>
    [] e.op \in {"unlink", "remove"} ->
                           IF ~Exists(e.p) THEN <<FALSE, "FileNotFoundError">>
                           ELSE IF IsDir(e.p) THEN <<FALSE, "IsADirectoryError">> ELSE <<TRUE, "">>
    [] e.op = "symlink" -> IF Exists(e.p2) THEN <<FALSE, "FileExistsError">>
                           ELSE IF ~IsDir(e.par2) THEN <<FALSE, "FileNotFoundError">> ELSE <<TRUE, "">>
    [] e.op \in {"rename", "replace"} ->
                           IF ~Exists(e.p) THEN <<FALSE, "FileNotFoundError">>
                           ELSE IF ~IsDir(e.par2) THEN <<FALSE, "FileNotFoundError">> ELSE <<TRUE, "">>
    [] e.op = "readlink" -> IF Exists(e.p) /\ fs[e.p].t = "link" THEN <<TRUE, fs[e.p].tg>>
                            ELSE <<FALSE, "OSError">>
    [] OTHER            -> <<e.ok, "">>          \* write, close, read, listdir, ...: no prediction

(* effect of a call that succeeded in reality *)
Effect(e) ==
  CASE e.op = "mkdir"   -> With(e.p, [t |-> "dir", tg |-> "", w |-> 2])
    [] e.op = "open_w"  -> With(Follow(e.p), [t |-> "file", tg |-> "", w |-> 0])
    [] e.op = "write"   -> IF Exists(Follow(e.p)) THEN With(Follow(e.p), [fs[Follow(e.p)] EXCEPT !.w = e.half]) ELSE fs
    [] e.op \in {"unlink", "remove", "rmdir"} -> Without(e.p)
    [] e.op = "symlink" -> With(e.p2, [t |-> "link", tg |-> e.p, w |-> 2])
    [] e.op \in {"rename", "replace"} ->
         [x \in (DOMAIN fs \ {e.p}) \cup {e.p2} |-> IF x = e.p2 THEN fs[e.p] ELSE fs[x]]
    [] e.op = "link"    -> With(e.p2, fs[e.p])
    [] OTHER            -> fs

Init == tid \in 1..Len(Traces) /\ l = 1 /\ bad = <<>> /\ fs = TreeOf(Traces[tid].init)

Step ==
  /\ l <= Len(T.events)
  /\ l' = l + 1 /\ UNCHANGED tid
  /\ LET e == Ev
         pr == Predict(e)
         okMatch == pr[1] = e.ok
         resMatch == (e.op \in {"stat", "lstat", "readlink"} /\ e.ok) => pr[2] = e.res
     IN /\ bad' = IF okMatch /\ resMatch THEN bad
                  ELSE Append(bad, <<l, e.op, IF okMatch THEN "result differs from the model" ELSE "outcome differs from the model">>)
        /\ fs' = IF e.ok THEN Effect(e) ELSE fs

Spec == Init /\ [][Step]_vars

Shape(tree) == {<<p, tree[p].t, tree[p].tg>> : p \in DOMAIN tree}
FinalTree == Shape(TreeOf(T.final))

Judged ==
  IF l = Len(T.events) + 1
  THEN PrintT(<<"DONE", ToJson([tid |-> tid, bad |-> bad, tree_ok |-> Shape(fs) = FinalTree,
                                 extra |-> Shape(fs) \ FinalTree, missing |-> FinalTree \ Shape(fs)])>>)
  ELSE TRUE
=============================================================================
