------------------------------ MODULE EvalProto ------------------------------
(***************************************************************************)
(* The store protocol of an evaluation, for ANY program: the projection of *)
(* DdsEval's step machine onto the Store API (executions of user bodies    *)
(* are stuttering steps).  It judges recorded executions of code whose     *)
(* call graph is not known to the harness -- in particular the             *)
(* repository's own test-suite, run with a recording store.                *)
(*                                                                         *)
(* Events (one trace = one store object, i.e. one test or one history):    *)
(*   [e |-> "begin", commit |-> BOOLEAN, run |-> BOOLEAN]   top-level      *)
(*         evaluation starts; commit: the path-commit stage is requested;  *)
(*         run: the eval stage is requested                                *)
(*   [e |-> "has", k, ans]      [e |-> "fetch", k, none]                   *)
(*   [e |-> "store", k]         [e |-> "sync", m |-> <<<<path, key>>>>]    *)
(*   [e |-> "fetch_paths", ps, ok, m]                                      *)
(*   [e |-> "end", ok |-> BOOLEAN]                                         *)
(* Rules (clauses named in `bad`):                                         *)
(*   the store answers like a dictionary (has / fetch_paths);              *)
(*   a blob is stored only inside an evaluation, only after a lookup of    *)
(*   that key in this evaluation missed, at most once (a no-op store       *)
(*   forgets, so there every occurrence misses again), never in a dry run; *)
(*   a blob is fetched only if present;                                    *)
(*   paths are committed at most once per evaluation, only with keys whose *)
(*   blobs exist, never when the commit stage is not requested;            *)
(*   an evaluation that ends normally with the commit stage requested has  *)
(*   committed; one that raises has not (C10); evaluations do not nest.    *)
(***************************************************************************)
EXTENDS Naturals, Sequences, FiniteSets, TLC, Json, IOUtils

Traces == JsonDeserialize(IOEnv.TRACE_FILE)

VARIABLES tid, l, blobs, paths, ev, bad
vars == <<tid, l, blobs, paths, ev, bad>>

T  == Traces[tid]
E  == T.events[l]
NoEv == [on |-> FALSE, commit |-> FALSE, run |-> FALSE, missed |-> {}, stored |-> {}, committed |-> FALSE]
PairSet(s) == {<<s[i][1], s[i][2]>> : i \in 1..Len(s)}
Flag(ok, clause) == IF ok THEN bad ELSE Append(bad, <<l, clause>>)

Init == tid \in 1..Len(Traces) /\ l = 1 /\ blobs = {} /\ paths = <<>> /\ ev = NoEv /\ bad = <<>>

Begin ==
  /\ E.e = "begin"
  /\ bad' = Flag(~ev.on, "evaluation started inside an evaluation")
  /\ ev' = [NoEv EXCEPT !.on = TRUE, !.commit = E.commit, !.run = E.run]
  /\ UNCHANGED <<blobs, paths>>

Has ==
  /\ E.e = "has"
  /\ bad' = Flag(T.noop \/ E.ans = (E.k \in blobs), "has_blob answer differs from the dictionary model")
  /\ ev' = IF ev.on /\ ~E.ans THEN [ev EXCEPT !.missed = @ \cup {E.k}] ELSE ev
  /\ UNCHANGED <<blobs, paths>>

Fetch ==
  /\ E.e = "fetch"
  /\ bad' = Flag(E.k \in blobs, "fetch_blob of a key that was never stored")
  /\ UNCHANGED <<blobs, paths, ev>>

Store ==
  /\ E.e = "store"
  /\ bad' = IF ~ev.on THEN Append(bad, <<l, "store_blob outside an evaluation">>)
            ELSE IF ~ev.run THEN Append(bad, <<l, "store_blob in an evaluation without the eval stage">>)
            ELSE IF E.k \notin ev.missed THEN Append(bad, <<l, "store_blob of a key that was not looked up and missed">>)
            ELSE IF E.k \in ev.stored /\ ~T.noop THEN Append(bad, <<l, "store_blob twice in one evaluation">>)
            ELSE bad
  /\ blobs' = blobs \cup {E.k}
  /\ ev' = IF ev.on THEN [ev EXCEPT !.stored = @ \cup {E.k}] ELSE ev
  /\ UNCHANGED paths

Sync ==
  /\ E.e = "sync"
  /\ LET m == PairSet(E.m) IN
     /\ bad' = IF ~ev.on THEN Append(bad, <<l, "sync_paths outside an evaluation">>)
               ELSE IF ~ev.commit THEN Append(bad, <<l, "sync_paths although the commit stage was not requested">>)
               ELSE IF ev.committed THEN Append(bad, <<l, "sync_paths twice in one evaluation">>)
               ELSE IF ~T.noop /\ \E x \in m : x[2] \notin blobs THEN Append(bad, <<l, "path committed to a blob that does not exist">>)
               ELSE bad
     /\ paths' = [p \in DOMAIN paths \cup {x[1] : x \in m} |->
                    IF \E x \in m : x[1] = p THEN (CHOOSE x \in m : x[1] = p)[2] ELSE paths[p]]
  /\ ev' = IF ev.on THEN [ev EXCEPT !.committed = TRUE] ELSE ev
  /\ UNCHANGED blobs

FetchPaths ==
  /\ E.e = "fetch_paths"
  /\ LET known == \A i \in 1..Len(E.ps) : E.ps[i] \in DOMAIN paths IN
     bad' = IF T.noop THEN bad
            ELSE IF E.ok # known THEN Append(bad, <<l, "fetch_paths succeeds / fails unlike the dictionary model">>)
            ELSE IF E.ok /\ \E x \in PairSet(E.m) : paths[x[1]] # x[2] THEN Append(bad, <<l, "fetch_paths returns a key that was not committed last">>)
            ELSE bad
  /\ UNCHANGED <<blobs, paths, ev>>

End ==
  /\ E.e = "end"
  /\ bad' = IF ~ev.on THEN Append(bad, <<l, "end without begin">>)
            ELSE IF E.ok /\ ev.commit /\ ev.run /\ ~ev.committed THEN Append(bad, <<l, "evaluation returned without committing its paths">>)
            ELSE IF ~E.ok /\ ev.committed THEN Append(bad, <<l, "paths committed by an evaluation that raised">>)
            ELSE bad
  /\ ev' = NoEv
  /\ UNCHANGED <<blobs, paths>>

(* a new process with an in-memory store: everything is gone *)
Reset == E.e = "reset" /\ blobs' = {} /\ paths' = <<>> /\ ev' = NoEv /\ UNCHANGED bad

Step == /\ l <= Len(T.events) /\ l' = l + 1 /\ UNCHANGED tid
        /\ (Begin \/ Has \/ Fetch \/ Store \/ Sync \/ FetchPaths \/ End \/ Reset)
Spec == Init /\ [][Step]_vars

Judged == IF l = Len(T.events) + 1 THEN PrintT(<<"DONE", ToJson([tid |-> tid, bad |-> bad])>>) ELSE TRUE
=============================================================================
