SPECIFICATION TSpec
CONSTANT defaultInitValue = defaultInitValue
CONSTRAINT Judged
CHECK_DEADLOCK FALSE
