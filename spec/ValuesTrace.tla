----------------------------- MODULE ValuesTrace -----------------------------
(***************************************************************************)
(* Code -> spec for C05: observations (value recipe, observed signature or *)
(* exception) recorded from the real hashing function on randomly built    *)
(* deep values are consumed one by one; TLC recomputes Canon of every      *)
(* recipe and maintains the table signature -> Canon.  A signature seen    *)
(* with two different Canon classes is a collision; an exception that is   *)
(* not a coded DDS error on an unsupported value breaks totality.  Steps   *)
(* are total: failing observations are collected in `bad` (position,       *)
(* clause, position of the earlier observation it collides with).          *)
(***************************************************************************)
EXTENDS DdsValues, IOUtils

Obs == JsonDeserialize(IOEnv.TRACE_FILE)

VARIABLES l, table, bad
tvars == <<l, table, bad, i, ulist, plist>>

TInit == l = 1 /\ table = <<>> /\ bad = <<>> /\ i = 0 /\ ulist = <<>> /\ plist = <<>>

TNext ==
  /\ l <= Len(Obs)
  /\ l' = l + 1 /\ UNCHANGED <<i, ulist, plist>>
  /\ LET o == Obs[l]
         c == Canon(o.v)
     IN IF o.exc # ""
        THEN /\ UNCHANGED table
             /\ bad' = IF o.exc \in {"DDS:TYPE_NOT_SUPPORTED", "DDS:SEQUENCE_TOO_LONG"} /\ ~Supported(o.v)
                       THEN bad
                       ELSE Append(bad, <<l, IF Supported(o.v) THEN "exception on a supported value"
                                             ELSE "low-level exception", 0>>)
        ELSE IF o.h \in DOMAIN table
        THEN /\ UNCHANGED table
             /\ bad' = IF table[o.h][1] = c THEN bad ELSE Append(bad, <<l, "collision", table[o.h][2]>>)
        ELSE /\ table' = (o.h :> <<c, l>>) @@ table
             /\ UNCHANGED bad

TSpec == TInit /\ [][TNext]_tvars
Judged == IF l = Len(Obs) + 1 THEN PrintT(<<"DONE", ToJson([n |-> l - 1, bad |-> bad])>>) ELSE TRUE
=============================================================================
