----------------------------- MODULE StoreCodec -----------------------------
(***************************************************************************)
(* C17: the codec registry and the per-blob codec reference.               *)
(* The registry of a process maps a result type to the codec that writes   *)
(* it (`handled`) and a persisted reference to the codec that reads it     *)
(* (`protocols`); dds/codec.py transcribed: add_codec overrides both maps, *)
(* add_file_codec only fills gaps; a type nobody handles falls back to the *)
(* "object" codec.  A stored blob carries the reference of its writer.     *)
(* A new process starts from the default registry and may re-register the  *)
(* user codecs in any order, or not at all.                                 *)
(* CodecConf (generated): Types, Defaults (sequence of file codecs),        *)
(* UserCodecs, Codec(ref) = [ref, kind, handles], Keys, TypeOf, MaxOps.     *)
(***************************************************************************)
EXTENDS Naturals, Sequences, FiniteSets, TLC, Json, CodecConf

VARIABLES handled,    \* [type -> ref or "-"]
          protocols,  \* set of refs this process can read
          written,    \* [key -> ref of the writer, or "-"]
          last, hist
vars == <<handled, protocols, written, last, hist>>

RECURSIVE RegFile(_, _, _)
RegFile(h, cs, i) ==        \* add_file_codec of cs[i..]: only fills gaps
  IF i > Len(cs) THEN h
  ELSE RegFile([t \in Types |-> IF h[t] = "-" /\ t \in Codec(cs[i]).handles THEN cs[i] ELSE h[t]], cs, i + 1)
DefaultHandled == RegFile([t \in Types |-> "-"], Defaults, 1)
DefaultProtocols == {Defaults[i] : i \in 1..Len(Defaults)}

Record(op, arg, ans) ==
  /\ last' = [op |-> op, arg |-> arg, ans |-> ans]
  /\ hist' = Append(hist, [op |-> op, arg |-> arg, ans |-> ans])
CanOp == Len(hist) < MaxOps

Register(c) ==
  /\ CanOp /\ c \in UserCodecs
  /\ IF Codec(c).kind = "codec"
     THEN handled' = [t \in Types |-> IF t \in Codec(c).handles THEN c ELSE handled[t]]
     ELSE handled' = [t \in Types |-> IF handled[t] = "-" /\ t \in Codec(c).handles THEN c ELSE handled[t]]
  /\ protocols' = protocols \cup {c}
  /\ Record("register", c, <<"ok">>)
  /\ UNCHANGED written

WriterFor(t) == IF handled[t] # "-" THEN handled[t] ELSE handled["object"]

(* store_blob of a key that is already written (a second process that evaluated the same node  *)
(* concurrently, or a direct call) replaces blob AND codec reference: the writer is the latest *)
Store(k) ==
  /\ CanOp
  /\ written' = [written EXCEPT ![k] = WriterFor(TypeOf[k])]
  /\ Record("store", k, <<"writer", WriterFor(TypeOf[k])>>)
  /\ UNCHANGED <<handled, protocols>>

Fetch(k) ==
  /\ CanOp /\ written[k] # "-"
  /\ Record("fetch", k, IF written[k] \in protocols THEN <<"reader", written[k]>>
                         ELSE <<"PROTOCOL_NOT_FOUND">>)
  /\ UNCHANGED <<handled, protocols, written>>

NewProcess ==
  /\ CanOp
  /\ handled' = DefaultHandled /\ protocols' = DefaultProtocols
  /\ Record("newproc", "", <<"ok">>)
  /\ UNCHANGED written

Init == /\ handled = DefaultHandled /\ protocols = DefaultProtocols
        /\ written = [k \in Keys |-> "-"]
        /\ last = [op |-> "init", arg |-> "", ans |-> <<"ok">>] /\ hist = <<>>
Next == \/ \E c \in UserCodecs : Register(c)
        \/ \E k \in Keys : Store(k) \/ Fetch(k)
        \/ NewProcess
Spec == Init /\ [][Next]_vars

(* whenever a fetch returns, the deserialising codec is the one recorded at write time *)
ReaderIsWriter == last.op = "fetch" /\ last.ans[1] = "reader" => last.ans[2] = written[last.arg]
(* text and bytes are written by the built-in verbatim codecs unless the user took them over *)
BuiltinVerbatim ==
  \A k \in Keys : (written[k] # "-" /\ TypeOf[k] \in {"str", "bytes"} /\ written[k] \notin UserCodecs)
                     => written[k] \in {"local.string", "local.bytes"}

Dump == IF GenMode /\ Len(hist) = MaxOps THEN PrintT(<<"HIST", ToJson(hist)>>) ELSE TRUE
DesignView == <<handled, protocols, written, last>>
=============================================================================
