SPECIFICATION Spec
CONSTRAINT Dump
CHECK_DEADLOCK FALSE
