------------------------------ MODULE SigTrace ------------------------------
(***************************************************************************)
(* C03 as a statement about observations.  An observation is               *)
(*   [c |-> content identity, p |-> path, k |-> real signature, e |-> env] *)
(* where the content identity is the dependency cone of the kept node      *)
(* (for generated programs: the term DdsEval computes; for corpus programs:*)
(* the program's name and evaluation).  The signature must be a FUNCTION   *)
(* of the content: whatever the process, hash seed, working directory,     *)
(* module location, store kind, debug / graph options and earlier          *)
(* evaluations were.  The pinned table (signatures recorded when the       *)
(* corpus was pinned) is the initial content of the table, so a library    *)
(* change that alters a pinned signature is a clash like any other.        *)
(* Steps are total: clashes are collected.                                  *)
(***************************************************************************)
EXTENDS Naturals, Sequences, FiniteSets, TLC, Json, IOUtils

Doc == JsonDeserialize(IOEnv.TRACE_FILE)     \* [pinned |-> <<[c, k]>>, obs |-> <<...>>]

VARIABLES l, table, clashes
vars == <<l, table, clashes>>

Init == /\ l = 1 /\ clashes = <<>>
        /\ table = [c \in {Doc.pinned[i].c : i \in 1..Len(Doc.pinned)} |->
                      [k |-> (CHOOSE i \in 1..Len(Doc.pinned) : Doc.pinned[i].c = c), pinned |-> TRUE]]

KeyOf(c) == IF table[c].pinned THEN Doc.pinned[table[c].k].k ELSE Doc.obs[table[c].k].k

Step ==
  /\ l <= Len(Doc.obs)
  /\ l' = l + 1
  /\ LET o == Doc.obs[l] IN
     IF o.c \in DOMAIN table
     THEN /\ UNCHANGED table
          /\ clashes' = IF KeyOf(o.c) = o.k THEN clashes
                        ELSE Append(clashes, [at |-> l, first |-> table[o.c].k, pinned |-> table[o.c].pinned])
     ELSE /\ table' = [c \in DOMAIN table \cup {o.c} |-> IF c = o.c THEN [k |-> l, pinned |-> FALSE] ELSE table[c]]
          /\ UNCHANGED clashes

Spec == Init /\ [][Step]_vars

SigIsFunctionOfContent == clashes = <<>>
Judged == IF l = Len(Doc.obs) + 1
          THEN PrintT(<<"DONE", ToJson([n |-> l - 1, distinct |-> Cardinality(DOMAIN table), clashes |-> clashes])>>)
          ELSE TRUE
=============================================================================
