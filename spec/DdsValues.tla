------------------------------ MODULE DdsValues ------------------------------
(***************************************************************************)
(* The value universe of arguments and tracked variables (C05) and the     *)
(* spellings of a kept call (C13).                                         *)
(*                                                                         *)
(* Values are terms:  [t |-> "atom", id |-> a]  for the named atoms of     *)
(* ValuesConf.Atoms (integers beyond 32 bits, signed zeros, nan, ... exist *)
(* only as names; their canonical identity is given with the atom), and    *)
(* [t |-> "list" | "tuple" | "ntuple", items |-> seq],                     *)
(* [t |-> "dict", items |-> seq of <<key, value>>],                        *)
(* [t |-> "dc", cls |-> name, items |-> seq of <<field, value>>].          *)
(*                                                                         *)
(* Canon is the identity of DESIGN.md 4.4: two supported values differ     *)
(* other than by the documented identifications (list = tuple = named      *)
(* tuple, bool = int, path / date = its text form; == on numbers; dicts    *)
(* unordered) iff their Canon differ -- only then must their signatures    *)
(* differ.                                                                 *)
(***************************************************************************)
EXTENDS Naturals, Sequences, FiniteSets, TLC, Json, SequencesExt, ValuesConf

AtomIdx(a) == CHOOSE i \in 1..Len(Atoms) : Atoms[i].id = a

RECURSIVE Canon(_)
Canon(v) ==
  CASE v.t = "atom" -> Atoms[AtomIdx(v.id)].c
    [] v.t \in {"list", "tuple", "ntuple"} ->
         <<"seq", [i \in 1..Len(v.items) |-> Canon(v.items[i])]>>
    [] v.t = "dict" ->
         <<"map", {<<Canon(v.items[i][1]), Canon(v.items[i][2])>> : i \in 1..Len(v.items)}>>
    [] v.t = "dc" ->
         <<"record", v.cls, [i \in 1..Len(v.items) |-> <<v.items[i][1], Canon(v.items[i][2])>>]>>

RECURSIVE Supported(_)
Supported(v) ==
  CASE v.t = "atom" -> Atoms[AtomIdx(v.id)].sup
    [] v.t \in {"list", "tuple", "ntuple"} -> \A i \in 1..Len(v.items) : Supported(v.items[i])
    [] OTHER -> \A i \in 1..Len(v.items) : Supported(v.items[i][2])
                 /\ (v.t = "dict" => Supported(v.items[i][1]))

-----------------------------------------------------------------------------
(* The enumerated universe: all atoms; containers of length <= 2 over the   *)
(* core atoms; one more level over a small core of containers.              *)
AtomVal(a) == [t |-> "atom", id |-> a]
AllAtoms  == {AtomVal(Atoms[i].id) : i \in 1..Len(Atoms)}
CoreAtoms == {AtomVal(Atoms[i].id) : i \in {j \in 1..Len(Atoms) : Atoms[j].core}}
KeyAtoms  == {AtomVal(Atoms[i].id) : i \in {j \in 1..Len(Atoms) : Atoms[j].key}}
(* keys of one-entry dicts: any hashable value -- None, numbers, dates, tuples and the strings *)
(* that spell them ({1: v} and {"1": v} are different values)                                  *)
Key1Vals  == {AtomVal(Atoms[i].id) : i \in {j \in 1..Len(Atoms) : Atoms[j].key1}}
               \cup {[t |-> "tuple", items |-> <<AtomVal("i1"), AtomVal("i2")>>],
                     [t |-> "tuple", items |-> <<>>]}
SeqsUpTo(S, n) == UNION {[1..k -> S] : k \in 0..n}

Containers(S, K, K1) ==
     {[t |-> tt, items |-> s] : tt \in {"list", "tuple"}, s \in SeqsUpTo(S, 2)}
  \cup {[t |-> "ntuple", items |-> s] : s \in [1..2 -> S]}
  \cup {[t |-> "dict", items |-> s] : s \in SeqsUpTo(K1 \X S, 1)}
  \cup {[t |-> "dict", items |-> <<<<x[1], x[3]>>, <<x[2], x[4]>>>>] :
          x \in {y \in K \X K \X S \X S : y[1] # y[2]}}
  \cup {[t |-> "dc", cls |-> c, items |-> <<<<"a", v1>>, <<"b", v2>>>>] : c \in {"DC1", "DC2"}, v1 \in S, v2 \in S}

Level1 == Containers(CoreAtoms, KeyAtoms, Key1Vals)
Tiny   == {AtomVal(Atoms[i].id) : i \in {j \in 1..Len(Atoms) : Atoms[j].tiny}}
Tiny2  == {AtomVal("none"), AtomVal("i0")}
Level2 == Containers(Tiny \cup Containers(Tiny2, {AtomVal("s_a")}, {AtomVal("s_a"), AtomVal("i1"), AtomVal("s_1")}), {}, {})
(* a dataclass inside a dataclass / a list (the class of the inner one is part of the value), next to *)
(* the dict with the same fields; an unsupported, non-copyable value in a dataclass field            *)
NestedDC ==
  LET ab(x, y) == <<<<"a", x>>, <<"b", y>>>>
      inner == {[t |-> "dc", cls |-> c, items |-> ab(AtomVal("i1"), AtomVal("i0"))] : c \in {"DC1", "DC2"}}
               \cup {[t |-> "dict", items |-> <<<<AtomVal("s_a"), AtomVal("i1")>>, <<AtomVal("s_b"), AtomVal("i0")>>>>]}
  IN {[t |-> "dc", cls |-> "DC1", items |-> ab(x, AtomVal("i0"))] : x \in inner \cup {AtomVal("u_lock")}}
     \cup {[t |-> "list", items |-> <<x>>] : x \in inner}
Universe == AllAtoms \cup Level1 \cup NestedDC \cup (IF Depth >= 2 THEN Level2 ELSE {})

(* documented identifications hold in Canon, and nothing else is merged *)
ASSUME \A s \in SeqsUpTo(CoreAtoms, 2) :
         Canon([t |-> "list", items |-> s]) = Canon([t |-> "tuple", items |-> s])
ASSUME \A a \in AllAtoms, b \in AllAtoms :
         (Canon(a) = Canon(b)) <=> (Atoms[AtomIdx(a.id)].c = Atoms[AtomIdx(b.id)].c)
ASSUME \A a \in CoreAtoms, b \in CoreAtoms :
         a # b => Canon([t |-> "list", items |-> <<a>>]) # Canon([t |-> "list", items |-> <<a, b>>])

-----------------------------------------------------------------------------
(* C13: parameter lists, spellings, bindings.                               *)
(* A parameter is [n |-> name, d |-> "-" (no default) | value id].          *)
(* A spelling gives, for each parameter in order, how it is supplied:       *)
(* "pos" value | "kw" value | "omit" (default used); keyword arguments also *)
(* come in every order.  Bind maps parameter -> Canon of the bound value.   *)
ParamLists ==      \* a parameter list = the sequence of its defaults, "-" = no default
  UNION {{s \in [1..n -> {"-"} \cup DefaultIds] :
            \A k \in 1..(n - 1) : s[k] # "-" => s[k + 1] # "-"} : n \in MinParams..MaxParams}

How == {"pos", "kw", "omit"}
Spellings(ps) ==
  {sp \in [1..Len(ps) -> [how : How, v : ArgIds]] :
     /\ \A k \in 1..Len(ps) : sp[k].how = "omit" => (ps[k] # "-" /\ sp[k].v = ps[k])
     /\ \A k \in 1..(Len(ps) - 1) : sp[k].how # "pos" => sp[k + 1].how # "pos"}

Bind(ps, sp) == [k \in 1..Len(ps) |-> Atoms[AtomIdx(sp[k].v)].c]

-----------------------------------------------------------------------------
(* Emission: TLC walks the universe in chunks and prints recipe + class.    *)
(* The lists are computed once, in the initial state.                        *)
VARIABLES i, ulist, plist
NChunks == IF GenMode = "values" THEN (Len(ulist) + Chunk - 1) \div Chunk ELSE Len(plist)
Init == /\ i = 0
        /\ ulist = IF GenMode = "values" THEN SetToSeq(Universe) ELSE <<>>
        /\ plist = IF GenMode = "values" THEN <<>> ELSE SetToSeq(ParamLists)
Next == i < NChunks /\ i' = i + 1 /\ UNCHANGED <<ulist, plist>>
Spec == Init /\ [][Next]_<<i, ulist, plist>>

Emit ==
  IF i = 0 THEN TRUE
  ELSE IF GenMode = "values"
  THEN LET lo == (i - 1) * Chunk + 1
           hi == IF i * Chunk < Len(ulist) THEN i * Chunk ELSE Len(ulist)
       IN PrintT(<<"VALS", ToJson([k \in lo..hi |->
                    [v |-> ulist[k], c |-> Canon(ulist[k]), sup |-> Supported(ulist[k])]])>>)
  ELSE LET ps == plist[i] IN
       PrintT(<<"SPELL", ToJson([ps |-> ps,
                  sp |-> SetToSeq({[s |-> sp, b |-> Bind(ps, sp)] : sp \in Spellings(ps)})])>>)
=============================================================================
