----------------------------- MODULE StoreViews -----------------------------
(***************************************************************************)
(* C16: local-store configurations and data directories as views.          *)
(* Several store objects ("views") share one internal directory (the       *)
(* blobs) and each has its own data directory (the path table).  A client  *)
(* process keeps and loads through one view at a time, may change its      *)
(* working directory, and may be replaced by a fresh process.  How the     *)
(* directories are spelled (absolute, relative, trailing separator, not    *)
(* yet existing, reached through a symbolic link) is not part of the       *)
(* state: no answer may depend on it -- the replay runs every behaviour    *)
(* under every spelling.                                                   *)
(* ViewsConf (generated): Views, Paths, Keys, MaxOps, GenMode.             *)
(***************************************************************************)
EXTENDS Naturals, Sequences, FiniteSets, TLC, Json, ViewsConf

VARIABLES blobs,    \* keys stored in the shared internal directory
          paths,    \* [view -> [path -> key or "-"]]
          cwd,      \* 0 = where the store was configured, 1 = somewhere else
          last, hist
vars == <<blobs, paths, cwd, last, hist>>

V(k) == <<"V", k>>
Record(op, view, q, k, ans) ==
  /\ last' = [op |-> op, view |-> view, q |-> q, k |-> k, ans |-> ans]
  /\ hist' = Append(hist, [op |-> op, view |-> view, q |-> q, k |-> k, ans |-> ans])

CanOp == Len(hist) < MaxOps

(* dds.keep(q, f) where the current code of f has signature k, through view v *)
Keep(v, q, k) ==
  /\ CanOp
  /\ blobs' = blobs \cup {k}
  /\ paths' = [paths EXCEPT ![v][q] = k]
  /\ Record("keep", v, q, k, [executed |-> k \notin blobs, value |-> V(k)])
  /\ UNCHANGED cwd

Load(v, q) ==
  /\ CanOp
  /\ Record("load", v, q, "", IF paths[v][q] = "-" THEN [executed |-> FALSE, value |-> <<"missing">>]
                              ELSE [executed |-> FALSE, value |-> V(paths[v][q])])
  /\ UNCHANGED <<blobs, paths, cwd>>

Chdir ==
  /\ CanOp /\ cwd' = 1 - cwd
  /\ Record("chdir", "", "", "", [executed |-> FALSE, value |-> <<"ok">>])
  /\ UNCHANGED <<blobs, paths>>

(* a fresh process, configured again with the same spelling from the original directory *)
NewProcess ==
  /\ CanOp /\ cwd' = 0
  /\ Record("newproc", "", "", "", [executed |-> FALSE, value |-> <<"ok">>])
  /\ UNCHANGED <<blobs, paths>>

Init == /\ blobs = {} /\ paths = [v \in Views |-> [q \in Paths |-> "-"]] /\ cwd = 0
        /\ last = [op |-> "init", view |-> "", q |-> "", k |-> "", ans |-> [executed |-> FALSE, value |-> <<"ok">>]]
        /\ hist = <<>>
Next == \/ \E v \in Views, q \in Paths, k \in Keys : Keep(v, q, k)
        \/ \E v \in Views, q \in Paths : Load(v, q)
        \/ Chdir \/ NewProcess
Spec == Init /\ [][Next]_vars

(* keep followed by load round-trips, in every view, whatever happened in between *)
ConfigRoundTrip == last.op = "load" /\ last.ans.value # <<"missing">> => last.ans.value = V(paths[last.view][last.q])
(* a blob computed through one view is never recomputed through another *)
SharedBlobsNoRecompute ==
  [][\A v \in Views, q \in Paths, k \in Keys : (k \in blobs /\ Keep(v, q, k)) => ~last'.ans.executed]_vars
(* a view's paths only change through that view *)
ViewsIndependent ==
  [][\A v \in Views : (last'.op = "keep" /\ last'.view # v) => paths'[v] = paths[v]]_vars

Dump == IF GenMode /\ Len(hist) = MaxOps THEN PrintT(<<"HIST", ToJson(hist)>>) ELSE TRUE
DesignView == <<blobs, paths, cwd, last>>
=============================================================================
