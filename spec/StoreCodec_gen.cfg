SPECIFICATION Spec
INVARIANT ReaderIsWriter
CONSTRAINT Dump
CHECK_DEADLOCK FALSE
