SPECIFICATION Spec
INVARIANT ConfigRoundTrip
PROPERTY SharedBlobsNoRecompute
PROPERTY ViewsIndependent
VIEW DesignView
CHECK_DEADLOCK FALSE
