from .. import envprops


def run(tier: str) -> int:
    return envprops.run_c03(tier)


def replay_file(path: str) -> int:
    return envprops.replay_file("C03", path)
