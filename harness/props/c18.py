"""C18 - graph export is faithful and does not perturb the evaluation."""
import copy
import json
import time
from typing import Any, Dict, List

from .. import common, evalfam, evalprops, oracles, shapes as shp
from ..common import Report

PLANS = [["eval2"], ["eval2", "edit", "eval2"], ["eval", "eval2"], ["evalB", "eval2"]]


def _shapes(tier: str):
    S = shp.core_shapes() + [s for s in shp.load_shapes() if "load-before-producer" not in s.tags] + shp.graph_shapes()
    return S


def run(tier: str) -> int:
    rep = Report("C18", tier)
    evalfam.import_dds()
    S = _shapes(tier)
    r = evalfam.tlc_design(S, PLANS, 1, "local", "package", ["one", "split"], name="design18")
    rep.cov["states"] = r.distinct
    rep.cov["transitions"] = r.generated
    total = 0
    nontriv = set()
    variants = [("local", ["one"], "from"), ("memory", ["split"], "from_as")]
    if tier == "thorough":
        variants += [("local+lru", ["deep"], "module"), ("memory+lru", ["one", "split"], "from")]
    for (vi, (store, layouts, imp)) in enumerate(variants):
        spec_store = "memory" if store.startswith("memory") else "local"
        (_, hs) = evalfam.tlc_generate(S, PLANS, 1, spec_store, "package", layouts, name="g18_%d_" % vi)
        byname = {}
        for s in S:
            s2 = copy.deepcopy(s)
            s2.real["import_form"] = imp
            s2.real["plain_refs"] = True
            byname[s.name] = s2
        items = [(byname[h["shape"]], h["hist"]) for h in hs]
        if vi == 0:
            evalfam.reference_check(items, limit=200)
        with_g = evalfam.replay_many(items, store, eval_kwargs={"dds_export_graph": True})
        without = evalfam.replay_many(items, store)
        realisation = "store=%s,layouts=%s,import=%s" % (store, "/".join(layouts), imp)
        for ((shape, hist), o, q) in zip(items, with_g, without):
            if o is None or q is None:
                continue
            total += 1
            ev = [x for x in hist if x["op"] == "eval" and x["style"] == "eval" and x["err"] in ("", [])]
            if any(len(x["graph"]["solid"]) + len(x["graph"]["dashed"]) > 0 for x in ev):
                nontriv.add((shape.name, store, json.dumps([[x.get("op"), x.get("kind"), x.get("what"), x.get("style")] for x in hist])))
            viols = oracles.c18(shape, hist, o, q, realisation=realisation)
            for (fp, det) in viols:
                rep.violation(fp, det)
            if not viols and ev:
                i = [k for (k, x) in enumerate(hist) if x is ev[-1]][0]
                rep.add_sample({"shape": shape.name, "expected_graph": ev[-1]["graph"], "observed_graph": o.get(i, {}).get("graph")})
    rep.cov["traces_validated_against_impl"] = total
    rep.cov["evaluations"] = total
    rep.cov["distinct_nontrivial"] = len(nontriv)
    rep.cov["rule"] = ("history replayed twice (dds.eval with and without dds_export_graph=<file>.dot); the dot file is parsed "
                       "back and compared with the spec's GraphOf; non-trivial when the expected graph has at least one edge")
    rep.cov["shapes"] = [s.name for s in S]
    rep.cov["exhaustive"] = False
    rep.assumptions += ["graphviz 'dot' and pydotplus render and parse node names and edge styles faithfully"]
    if total == 0 or len(nontriv) < 2:
        rep.finish()
        raise common.MachineryError("vacuity guard: %d histories, %d with edges" % (total, len(nontriv)))
    return rep.finish()


def replay_file(path: str) -> int:
    evalfam.import_dds()
    with open(path) as f:
        v = json.load(f)
    det = v["detail"]
    shape = shp.Shape.from_json(det["shape"])
    hist = det["history"]
    real = det.get("realisation", "store=local")
    sk = dict(x.split("=") for x in real.split(",") if "=" in x).get("store", "local")
    o = evalfam.replay_many([(shape, hist)], sk, eval_kwargs={"dds_export_graph": True})[0]
    q = evalfam.replay_many([(shape, hist)], sk)[0]
    viols = oracles.c18(shape, hist, o, q, realisation=real)
    for (fp, d) in viols:
        print("VIOLATION property=C18 replay=%s" % path)
        print("  cause: %s" % fp)
        print("  expected graph: %s" % json.dumps(d.get("expected_graph")))
        print("  observed graph: %s" % json.dumps(d.get("observed_graph")))
    return 1 if viols else 0
