from .. import codecprops


def run(tier: str) -> int:
    return codecprops.run_c17(tier)


def replay_file(path: str) -> int:
    return codecprops.replay_file("C17", path)
