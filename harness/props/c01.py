"""C01 - memoised evaluation returns exactly what plain execution would return."""
from .. import evalprops


def run(tier: str) -> int:
    return evalprops.run_family("C01", tier)


def replay_file(path: str) -> int:
    return evalprops.replay_file("C01", path)
