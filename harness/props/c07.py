from .. import schedprops


def run(tier: str) -> int:
    return schedprops.run_c07(tier)


def replay_file(path: str) -> int:
    return schedprops.replay_file("C07", path)
