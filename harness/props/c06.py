from .. import crashprops


def run(tier: str) -> int:
    return crashprops.run_c06(tier)


def replay_file(path: str) -> int:
    return crashprops.replay_file("C06", path)
