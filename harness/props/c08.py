from .. import storeprops


def run(tier: str) -> int:
    return storeprops.run_c08(tier)


def replay_file(path: str) -> int:
    return storeprops.replay_file("c08", path)
