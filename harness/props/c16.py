from .. import viewprops


def run(tier: str) -> int:
    return viewprops.run_c16(tier)


def replay_file(path: str) -> int:
    return viewprops.replay_file("C16", path)
