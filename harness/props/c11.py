from .. import evalprops


def run(tier: str) -> int:
    return evalprops.run_family("C11", tier)


def replay_file(path: str) -> int:
    return evalprops.replay_file("C11", path)
