from .. import valueprops


def run(tier: str) -> int:
    return valueprops.run_c05(tier)


def replay_file(path: str) -> int:
    return valueprops.replay_file("C05", path)
