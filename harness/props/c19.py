from .. import dbfsprops


def run(tier: str) -> int:
    return dbfsprops.run_c19(tier)


def replay_file(path: str) -> int:
    return dbfsprops.replay_file("C19", path)
