"""
C05 (value hashing total, deterministic, collision-free) and C13 (signature depends on the
binding, not on the spelling), decided on spec/DdsValues.tla: TLC defines and enumerates the
universe and the expected partition (Canon / Bind); the harness builds every value / call and
compares the partition induced by the real signatures; recorded observations on random deep
values are judged by TLC (ValuesTrace).
"""
import collections
import dataclasses
import json
import multiprocessing
import os
import random
import subprocess
import sys
import time
from typing import Any, Dict, List, Optional, Tuple

from . import common, evalfam, valuesconf
from .common import MachineryError, Report

NT2 = collections.namedtuple("NT2", ["a", "b"])


@dataclasses.dataclass(frozen=True)
class DC1:
    a: Any
    b: Any


@dataclasses.dataclass(frozen=True)
class DC2:
    a: Any
    b: Any


ATOM = valuesconf.by_id()


def build(r: Dict[str, Any]) -> Any:
    t = r["t"]
    if t == "atom":
        return ATOM[r["id"]]["py"]
    if t == "list":
        return [build(x) for x in r["items"]]
    if t == "tuple":
        return tuple(build(x) for x in r["items"])
    if t == "ntuple":
        return NT2(*[build(x) for x in r["items"]])
    if t == "dict":
        return dict((build(k), build(v)) for (k, v) in r["items"])
    if t == "dc":
        cls = {"DC1": DC1, "DC2": DC2}[r["cls"]]
        return cls(**dict((k, build(v)) for (k, v) in r["items"]))
    raise ValueError(t)


def kind(r: Dict[str, Any]) -> str:
    if r["t"] == "atom":
        a = r["id"]
        if a == "none":
            return "None"
        if a in ("true", "false"):
            return "bool"
        if a.startswith("i"):
            return "int"
        if a.startswith("f"):
            return "float"
        if a.startswith("s_"):
            return "str"
        return a
    if r["t"] == "dc":
        return "dataclass:" + r["cls"]
    return "%s:%d" % (r["t"], len(r["items"]))


def pycanon(r: Dict[str, Any]) -> str:
    """Python mirror of DdsValues.Canon -- used only to *describe* a collision (which sub-terms
    really differ); the verdict always comes from the classes TLC computed."""
    t = r["t"]
    if t == "atom":
        return json.dumps(ATOM[r["id"]]["c"])
    if t in ("list", "tuple", "ntuple"):
        return json.dumps(["seq", [pycanon(x) for x in r["items"]]])
    if t == "dict":
        return json.dumps(["map", sorted([pycanon(k), pycanon(v)] for (k, v) in r["items"])])
    return json.dumps(["record", r["cls"], [[k, pycanon(v)] for (k, v) in r["items"]]])


def diff_pair(a: Dict[str, Any], b: Dict[str, Any]) -> Tuple[Dict[str, Any], Dict[str, Any]]:
    """Descend through equal-shaped containers to the first sub-terms that differ in identity
    (sub-terms that only differ by a documented identification are skipped)."""
    same = lambda x, y: pycanon(x) == pycanon(y)
    seqs = ("list", "tuple", "ntuple")
    if a["t"] in seqs and b["t"] in seqs and len(a["items"]) == len(b["items"]) and a["items"]:
        for (x, y) in zip(a["items"], b["items"]):
            if not same(x, y):
                return diff_pair(x, y)
    if a["t"] == b["t"] == "dict" and len(a["items"]) == len(b["items"]) and a["items"]:
        for ((k1, v1), (k2, v2)) in zip(a["items"], b["items"]):
            if not same(k1, k2):
                return diff_pair(k1, k2)
            if not same(v1, v2):
                return diff_pair(v1, v2)
    if a["t"] == b["t"] == "dc" and a["cls"] == b["cls"]:
        for ((k1, v1), (k2, v2)) in zip(a["items"], b["items"]):
            if not same(v1, v2):
                return diff_pair(v1, v2)
    return (a, b)


def collision_class(a: Dict[str, Any], b: Dict[str, Any]) -> str:
    (x, y) = diff_pair(a, b)
    (kx, ky) = sorted([kind(x), kind(y)])
    empties = {"list:0", "tuple:0", "dict:0"}
    ids = {x.get("id"), y.get("id")}
    emptyish = lambda t: kind(t) in empties or t.get("id") == "s_empty"
    if emptyish(x) and emptyish(y):
        return "empty-container~empty-container-or-empty-string"
    if ids == {"none", "s_ddsnone"}:
        return "None~'__DDS_NONE__'"
    if kx.startswith("dataclass") and ky.startswith("dataclass"):
        return "dataclasses-with-equal-fields-of-different-classes"
    if "str" in (kx, ky) and (kx.split(":")[0] in ("list", "tuple", "ntuple", "dict", "dataclass") or ky.split(":")[0] in ("list", "tuple", "ntuple", "dict", "dataclass")):
        return "container~string-spelling-its-element-hashes"
    if {kx.split(":")[0], ky.split(":")[0]} == {"dict", "dataclass"}:
        return "dataclass~dict-spelling-its-field-hashes"
    seqs = ("list", "tuple", "ntuple")
    for (d_, l_) in ((x, y), (y, x)):
        if d_["t"] == "dict" and l_["t"] in seqs and len(d_["items"]) == len(l_["items"]) and d_["items"] and all(
                i["t"] in seqs and len(i["items"]) == 2 for i in l_["items"]):
            return "dict~sequence-of-its-key-value-pairs"
    return "%s~%s" % (kx, ky)


def observe(recipes: List[Dict[str, Any]]) -> List[Dict[str, str]]:
    from dds.fun_args import dds_hash
    from dds.structures import DDSException
    res = []
    for r in recipes:
        try:
            v = build(r)
        except Exception as e:     # unhashable key etc: not a value at all
            res.append({"h": "", "exc": "BUILD:" + type(e).__name__})
            continue
        try:
            common.arm(30)
            res.append({"h": dds_hash(v), "exc": ""})
        except DDSException as e:
            res.append({"h": "", "exc": "DDS:%s" % (e.error_code.name if e.error_code is not None else "None")})
        except BaseException as e:
            res.append({"h": "", "exc": "%s" % type(e).__name__})
    common.disarm()
    return res


def _observe_task(a) -> List[Dict[str, str]]:
    return observe(a)


def observe_parallel(recipes: List[Dict[str, Any]]) -> List[Dict[str, str]]:
    evalfam.import_dds()
    n = common.NCPU
    chunks = [recipes[i::n] for i in range(n)]
    with multiprocessing.get_context("fork").Pool(n) as pool:
        parts = pool.map(_observe_task, chunks)
    out: List[Any] = [None] * len(recipes)
    for (i, part) in enumerate(parts):
        for (j, o) in enumerate(part):
            out[i + j * n] = o
    return out


def observe_other_process(recipes: List[Dict[str, Any]], hashseed: str) -> List[Dict[str, str]]:
    env = dict(os.environ)
    env["PYTHONPATH"] = common.REPO + os.pathsep + common.VERIF
    env["PYTHONHASHSEED"] = hashseed
    p = subprocess.run([common.PY, "-m", "harness.valueprops"], input=json.dumps(recipes).encode(),
                       stdout=subprocess.PIPE, stderr=subprocess.PIPE, env=env, cwd=common.VERIF, timeout=600)
    if p.returncode != 0:
        raise MachineryError("second-process hashing failed: " + p.stderr.decode()[-800:])
    return json.loads(p.stdout.decode())


def random_recipes(n: int, seed: int, depth: int) -> List[Dict[str, Any]]:
    rnd = random.Random(seed)
    atoms = [a["id"] for a in valuesconf.ATOMS]
    keys = [a["id"] for a in valuesconf.ATOMS if a["key"]]

    def gen(d: int) -> Dict[str, Any]:
        if d == 0 or rnd.random() < 0.3:
            return {"t": "atom", "id": rnd.choice(atoms)}
        t = rnd.choice(["list", "tuple", "ntuple", "dict", "dc"])
        if t in ("list", "tuple"):
            return {"t": t, "items": [gen(d - 1) for _ in range(rnd.randint(0, 3))]}
        if t == "ntuple":
            return {"t": t, "items": [gen(d - 1), gen(d - 1)]}
        if t == "dict":
            ks = rnd.sample(keys, rnd.randint(0, min(3, len(keys))))
            return {"t": t, "items": [[{"t": "atom", "id": k}, gen(d - 1)] for k in ks]}
        return {"t": "dc", "cls": rnd.choice(["DC1", "DC2"]), "items": [["a", gen(d - 1)], ["b", gen(d - 1)]]}
    return [gen(depth) for _ in range(n)]


def run_c05(tier: str) -> int:
    rep = Report("C05", tier)
    evalfam.import_dds()
    seed = common.seed()
    depth = 1 if tier == "quick" else 2
    d = common.stage_spec({"ValuesConf.tla": valuesconf.module("values", depth)}, "vals")
    r = common.run_tlc(d, "DdsValues.tla", "DdsValues.cfg", workers=1, timeout=1200)
    common.tlc_must_pass(r, "DdsValues")
    uni = []
    for chunk in r.printed("VALS"):
        # a function over lo..hi is a JSON array only when lo = 1
        uni += chunk if isinstance(chunk, list) else [chunk[k] for k in sorted(chunk, key=int)]
    rep.cov["states"] = r.distinct
    rep.cov["transitions"] = r.generated
    recipes = [u["v"] for u in uni]
    obs = observe_parallel(recipes)
    # (a) totality
    for (u, o) in zip(uni, obs):
        if o["exc"]:
            if o["exc"].startswith("BUILD:"):
                raise MachineryError("cannot build %s: %s" % (u["v"], o["exc"]))
            coded = o["exc"] in ("DDS:TYPE_NOT_SUPPORTED", "DDS:SEQUENCE_TOO_LONG")
            if u["sup"] or not coded:
                (x, _) = diff_pair(u["v"], u["v"])
                rep.violation("C05|not-total|%s|%s" % (o["exc"], _exc_where(u["v"])), {"value": u["v"], "exception": o["exc"]})
    # (b) collision freedom: every group of equal signatures lies in one Canon class
    groups: Dict[str, List[int]] = {}
    for (k, o) in enumerate(obs):
        if not o["exc"]:
            groups.setdefault(o["h"], []).append(k)
    classes = set()
    for (h, ks) in groups.items():
        cs: Dict[str, int] = {}
        for k in ks:
            cs.setdefault(json.dumps(uni[k]["c"], sort_keys=True), k)
        classes.add(json.dumps(uni[ks[0]]["c"], sort_keys=True))
        if len(cs) > 1:
            reps = list(cs.values())
            for other in reps[1:]:
                rep.violation("C05|collision|%s" % collision_class(uni[reps[0]]["v"], uni[other]["v"]),
                              {"a": uni[reps[0]]["v"], "b": uni[other]["v"], "signature": h,
                               "python_a": repr(build(uni[reps[0]]["v"]))[:120], "python_b": repr(build(uni[other]["v"]))[:120]})
    # (c) determinism across processes / hash seeds
    sample = recipes[:: max(1, len(recipes) // 1500)]
    here = observe(sample)
    for hs in ("0", "4242", "7"):
        # the last process hashes the values in the opposite order: a signature must not depend on what
        # the process hashed before
        order = list(reversed(range(len(sample)))) if hs == "7" else list(range(len(sample)))
        got = observe_other_process([sample[k] for k in order], hs)
        there = [None] * len(sample)
        for (k, o) in zip(order, got):
            there[k] = o
        for (rc, a, b) in zip(sample, here, there):
            if a != b:
                rep.violation("C05|process-dependent|%s" % kind(rc), {"value": rc, "here": a, "other_process": b, "hashseed": hs,
                                                                      "order": "reversed" if hs == "7" else "same"})
                break
    # (c') size limit: a coded SEQUENCE_TOO_LONG, also for nested sequences and with the option changed
    nlim = size_limit_probe(rep)
    rep.cov["sequence_limit_probes"] = nlim
    # (d) the same partition through dds.keep (signature observed via Store.sync_paths)
    nkeep = keep_probe(rep, uni, obs, 60 if tier == "quick" else 400, seed)
    # (e) code -> spec: random deeper values judged by TLC
    ntr = 1500 if tier == "quick" else 20000
    rr = random_recipes(ntr, seed, 3 if tier == "quick" else 4)
    ro = observe_parallel(rr)
    trace = [{"v": v, "h": o["h"], "exc": o["exc"]} for (v, o) in zip(rr, ro)]
    # binding self-test: two altered observations are appended (the signature of another value; a
    # low-level exception for a supported value); ValuesTrace must flag exactly these
    (va, vb) = ({"t": "atom", "id": "i2"}, {"t": "atom", "id": "s_b"})
    (oa, ob) = observe([va, vb])
    n_real = len(trace)
    trace.append({"v": va, "h": oa["h"], "exc": oa["exc"]})
    trace.append({"v": vb, "h": oa["h"], "exc": ""})                   # s_b "hashed" to the signature of 2
    trace.append({"v": {"t": "list", "items": [va]}, "h": "", "exc": "TypeError"})   # a supported value, low-level exception
    d2 = common.stage_spec({"ValuesConf.tla": valuesconf.module("values", 1)}, "vtrace")
    tf = os.path.join(d2, "obs.json")
    with open(tf, "w") as f:
        json.dump(trace, f)
    tr = common.run_tlc(d2, "ValuesTrace.tla", "ValuesTrace.cfg", workers=1, timeout=1200, env={"TRACE_FILE": tf})
    common.tlc_must_pass(tr, "ValuesTrace")
    done = tr.printed("DONE")
    if not done or done[-1]["n"] != len(trace):
        raise MachineryError("ValuesTrace consumed %s of %d observations" % (done[-1]["n"] if done else None, len(trace)))
    flagged = sorted(pos for (pos, clause, other) in done[-1]["bad"] if pos > n_real)
    if flagged != [n_real + 2, n_real + 3]:
        raise MachineryError("binding self-test: ValuesTrace flagged %s of the altered observations %s" % (flagged, [n_real + 2, n_real + 3]))
    rep.cov["corrupted_observations_rejected"] = 2
    for (pos, clause, other) in done[-1]["bad"]:
        if pos > n_real:
            continue
        v = trace[pos - 1]
        if clause == "collision":
            w = trace[other - 1]
            rep.violation("C05|collision|%s" % collision_class(v["v"], w["v"]), {"a": v["v"], "b": w["v"], "signature": v["h"], "from": "recorded trace"})
        else:
            rep.violation("C05|not-total|%s|%s" % (v["exc"], _exc_where(v["v"])), {"value": v["v"], "exception": v["exc"], "from": "recorded trace"})
    trace = trace[:n_real]
    rep.cov["traces_validated_against_impl"] = len(uni) + len(trace)
    rep.cov["enumerated_values"] = len(uni)
    rep.cov["recorded_observations_judged_by_tlc"] = len(trace)
    rep.cov["canon_classes_among_enumerated"] = len(classes)
    rep.cov["kept_calls_probed"] = nkeep
    rep.cov["evaluations"] = len(uni) + len(trace)
    rep.cov["distinct_nontrivial"] = len(classes)
    rep.cov["rule"] = ("value = term of the universe DdsValues enumerates (all atoms; containers of length <= 2 over the core atoms; "
                       "depth 2 in thorough) or a random deeper term; distinct_nontrivial = number of distinct Canon classes hashed")
    rep.cov["exhaustive"] = True
    rep.cov["exhaustive_part"] = "the enumerated universe (all pairs compared through grouping by signature)"
    rep.add_sample({"value": uni[len(uni) // 2]["v"], "canon": uni[len(uni) // 2]["c"], "observed": obs[len(uni) // 2]})
    rep.add_sample({"value": trace[0]["v"], "observed": {"h": trace[0]["h"], "exc": trace[0]["exc"]}})
    rep.assumptions += ["sha256 collision resistance", "1 == 1.0 and 0.0 == -0.0 are equal values (left free)",
                        "nan is one class"]
    return rep.finish()


def size_limit_probe(rep: Report) -> int:
    import dds
    from dds.fun_args import dds_hash
    from dds.structures import DDSException
    default = dds.get_option("hash.max_sequence_size")
    cases = []
    big = list(range(default + 1))
    cases += [("list", big, True), ("tuple", tuple(big), True), ("dict", dict((i, i) for i in big), True),
              ("nested-in-dict", {"k": [0, big]}, True), ("nested-in-dataclass", DC1(a=1, b=big), True),
              ("at-limit", list(range(default)), False)]
    n = 0
    try:
        for (label, v, too_long) in cases:
            n += 1
            _probe_limit(rep, label, v, too_long, "default")
        dds.set_option("hash.max_sequence_size", 3)
        for (label, v, too_long) in [("list4", [1, 2, 3, 4], True), ("list3", [1, 2, 3], False),
                                     ("dict4", {1: 1, 2: 2, 3: 3, 4: 4}, True), ("nested", [[1, 2, 3, 4]], True),
                                     ("str-is-not-a-sequence", "abcdefgh", False)]:
            n += 1
            _probe_limit(rep, label, v, too_long, "option=3")
    finally:
        dds.set_option("hash.max_sequence_size", default)
    return n


def _probe_limit(rep: Report, label: str, v: Any, too_long: bool, opt: str) -> None:
    from dds.fun_args import dds_hash
    from dds.structures import DDSException
    try:
        dds_hash(v)
        got = "hashed"
    except DDSException as e:
        got = "DDS:%s" % (e.error_code.name if e.error_code is not None else "None")
    except BaseException as e:
        got = type(e).__name__
    exp = "DDS:SEQUENCE_TOO_LONG" if too_long else "hashed"
    if got != exp:
        rep.violation("C05|size-limit|%s|%s|expected=%s|got=%s" % (label, opt, exp, got), {"case": label, "option": opt})


def _exc_where(r: Dict[str, Any]) -> str:
    """the kind of the atoms that can make hashing fail"""
    ks = set()

    def walk(x):
        if x["t"] == "atom":
            if x["id"] in ("i2p31", "imin32m1", "i2p32", "i2p63", "i2p64p1"):
                ks.add("int-beyond-32-bit")
        elif x["t"] in ("list", "tuple", "ntuple"):
            for y in x["items"]:
                walk(y)
        else:
            for (k, y) in x["items"]:
                if isinstance(k, dict):
                    walk(k)
                walk(y)
    walk(r)
    return ",".join(sorted(ks)) or kind(r)


def keep_probe(rep: Report, uni, obs, n: int, seed: int) -> int:
    """dds.keep('/p', f, value): the signature handed to sync_paths partitions values as dds_hash does."""
    import dds
    import dds._api as api
    from .worker import make_recording_store
    from dds.store import MemoryStore
    rnd = random.Random(seed)
    idx = [k for k in range(len(uni)) if not obs[k]["exc"]]
    rnd.shuffle(idx)
    idx = idx[:n]
    mod = sys.modules[__name__]
    dds.accept_module(__name__)
    ops: List[Any] = []
    api._store_var = make_recording_store(MemoryStore(), ops)
    sig_of: Dict[int, str] = {}
    for k in idx:
        del ops[:]
        try:
            dds.keep("/probe", _probe_fun, build(uni[k]["v"]))
        except BaseException as e:
            rep.violation("C05|keep-fails|%s|%s" % (type(e).__name__, kind(uni[k]["v"])), {"value": uni[k]["v"], "exception": repr(e)[:200]})
            continue
        sy = [o for o in ops if o[0] == "sync"]
        sig_of[k] = dict(sy[-1][1])["/probe"]
    by_hash: Dict[str, set] = {}
    for (k, s) in sig_of.items():
        by_hash.setdefault(obs[k]["h"], set()).add(s)
    for (h, ss) in by_hash.items():
        if len(ss) > 1:
            rep.violation("C05|keep-signature-not-a-function-of-hash", {"hash": h, "signatures": sorted(ss)})
    by_sig: Dict[str, set] = {}
    for (k, s) in sig_of.items():
        by_sig.setdefault(s, set()).add(json.dumps(uni[k]["c"], sort_keys=True))
    api._store_var = None
    return len(sig_of)


def _probe_fun(x):
    return 1


if __name__ == "__main__":
    sys.path.insert(0, common.REPO)
    import dds  # noqa
    recipes_ = json.loads(sys.stdin.read())
    sys.stdout.write(json.dumps(observe(recipes_)))


def replay_file(prop: str, path: str) -> int:
    evalfam.import_dds()
    with open(path) as f:
        v = json.load(f)
    d = v["detail"]
    print("cause: %s" % v["fingerprint"])
    if "a" in d and "b" in d:
        (oa, ob) = observe([d["a"], d["b"]])
        print("a = %r -> %s" % (build(d["a"]), oa))
        print("b = %r -> %s" % (build(d["b"]), ob))
        bad = (not oa["exc"]) and oa == ob
    elif "value" in d:
        (o,) = observe([d["value"]])
        print("value = %r -> %s" % (build(d["value"]), o))
        bad = bool(o["exc"]) and o["exc"] not in ("DDS:TYPE_NOT_SUPPORTED", "DDS:SEQUENCE_TOO_LONG")
    else:
        print(json.dumps(d)[:2000])
        bad = True
    if bad:
        print("VIOLATION property=%s replay=%s" % (prop, path))
    return 1 if bad else 0


# ----------------------------------------------------------------------------------------
# C13
# ----------------------------------------------------------------------------------------

LIT = {"none": "None", "i0": "0", "i1": "1", "true": "True", "false": "False", "s_empty": '""', "s_a": '"a"'}
PNAMES = ["a", "b", "c", "d"]


def _call_text(sp: List[Dict[str, str]], kw_reversed: bool) -> str:
    pos = [LIT[x["v"]] for x in sp if x["how"] == "pos"]
    kws = [(PNAMES[k], LIT[x["v"]]) for (k, x) in enumerate(sp) if x["how"] == "kw"]
    if kw_reversed:
        kws = list(reversed(kws))
    return ", ".join(pos + ["%s=%s" % kv for kv in kws])


def _spell_module(idx: int, ps: List[str], spellings: List[Dict[str, Any]]) -> Tuple[str, List[Tuple[int, bool, str]]]:
    """source of module vspell.m<idx>: the function g and one caller per (spelling, keyword order)"""
    params = ", ".join(PNAMES[k] if d == "-" else "%s=%s" % (PNAMES[k], LIT[d]) for (k, d) in enumerate(ps))
    lines = ["import dds", "", "", "def g(%s):" % params,
             "    return ['g', %s]" % ", ".join("repr(%s)" % PNAMES[k] for k in range(len(ps))), ""]
    callers = []
    for (j, s) in enumerate(spellings):
        nkw = len([x for x in s["s"] if x["how"] == "kw"])
        for rev in ([False, True] if nkw >= 2 else [False]):
            name = "h_%d_%d" % (j, int(rev))
            args = _call_text(s["s"], rev)
            lines += ["", "def %s():" % name,
                      "    return dds.keep('/p', g%s)" % (", " + args if args else ""), ""]
            callers.append((j, rev, name))
    return ("\n".join(lines) + "\n", callers)


def _c13_redef_task(a) -> List[Dict[str, Any]]:
    """Redefinition mode: the parameter lists of one batch are defined one after the other under the
    SAME module and function name in one process (the module file is rewritten and reloaded, as when a
    notebook cell or an edited module is re-run)."""
    (batch, root) = a
    return [_c13_task((idx, ps, spellings, root, "redef")) for (idx, ps, spellings) in batch]


def _c13_task(a) -> Dict[str, Any]:
    (idx, ps, spellings, root) = a[:4]
    redef = len(a) > 4
    import importlib
    import dds
    import dds._api as api
    from dds.store import MemoryStore
    from .worker import make_recording_store
    (src, callers) = _spell_module(idx, ps, spellings)
    pkg = os.path.join(root, "vspell")
    os.makedirs(pkg, exist_ok=True)
    open(os.path.join(pkg, "__init__.py"), "a").close()
    modname = "redef" if redef else "m%d" % idx
    with open(os.path.join(pkg, modname + ".py"), "w") as f:
        f.write(src)
    if root not in sys.path:
        sys.path.insert(0, root)
    importlib.invalidate_caches()
    dds.accept_module("vspell")
    if redef:
        # the same module and function names defined again in one process, the way a notebook cell is
        # re-run: the source is compiled under a fresh pseudo file name registered with linecache and
        # executed in the (single) module object -- no import-system caching involved
        import linecache
        import types
        full = "vspell." + modname
        mod = sys.modules.get(full)
        if mod is None:
            importlib.import_module("vspell")
            mod = types.ModuleType(full)
            sys.modules[full] = mod
            setattr(sys.modules["vspell"], modname, mod)
        for k in [k for k in mod.__dict__ if k.startswith("h_") or k == "g"]:
            del mod.__dict__[k]
        fname = "<vspell.redef cell %d>" % idx
        linecache.cache[fname] = (len(src), None, src.splitlines(True), fname)
        exec(compile(src, fname, "exec"), mod.__dict__)
    else:
        mod = importlib.import_module("vspell." + modname)
    ops: List[Any] = []
    res: List[Dict[str, Any]] = []

    def sig_of(thunk) -> Dict[str, Any]:
        del ops[:]
        api._store_var = make_recording_store(MemoryStore(), ops)   # fresh store: nothing is served
        try:
            thunk()
        except BaseException as e:
            return {"exc": "%s: %s" % (type(e).__name__, str(e)[:120])}
        sy = [o for o in ops if o[0] == "sync"]
        return {"sig": dict(sy[-1][1]).get("/p")}

    for (j, rev, name) in callers:
        s = spellings[j]
        r1 = sig_of(lambda: dds.eval(getattr(mod, name)))
        res.append({"j": j, "route": "source", "rev": rev, **r1})
    for (j, s) in enumerate(spellings):
        pos = [ATOM[x["v"]]["py"] for x in s["s"] if x["how"] == "pos"]
        kws = [(PNAMES[k], ATOM[x["v"]]["py"]) for (k, x) in enumerate(s["s"]) if x["how"] == "kw"]
        for rev in ([False, True] if len(kws) >= 2 else [False]):
            kw = dict(reversed(kws) if rev else kws)
            r2 = sig_of(lambda: dds.keep("/p", mod.g, *pos, **kw))
            res.append({"j": j, "route": "direct", "rev": rev, **r2})
    return {"idx": idx, "res": res}


def run_c13(tier: str) -> int:
    rep = Report("C13", tier)
    evalfam.import_dds()
    maxp = 2 if tier == "quick" else 3
    d = common.stage_spec({"ValuesConf.tla": valuesconf.module("spell", 1, max_params=maxp)}, "spell")
    r = common.run_tlc(d, "DdsValues.tla", "DdsValues.cfg", workers=1, timeout=1800)
    common.tlc_must_pass(r, "DdsValues (spellings)")
    plists = r.printed("SPELL")
    rep.cov["states"] = r.distinct
    rep.cov["transitions"] = r.generated
    if tier == "thorough":
        # four parameters over two values and two defaults (None / 1, None / 0)
        d4 = common.stage_spec({"ValuesConf.tla": valuesconf.module("spell", 1, max_params=4, min_params=4,
                                                                  arg_ids=["none", "i1"], default_ids=["none", "i0"])}, "spell4")
        r4 = common.run_tlc(d4, "DdsValues.tla", "DdsValues.cfg", workers=1, timeout=1800)
        common.tlc_must_pass(r4, "DdsValues (spellings, 4 parameters)")
        plists += r4.printed("SPELL")
        rep.cov["states"] += r4.distinct
        rep.cov["transitions"] += r4.generated
    if tier == "thorough":
        # three parameters: every parameter list, spellings sampled
        rnd = random.Random(common.seed())
        for pl in plists:
            if len(pl["ps"]) >= 3 and len(pl["sp"]) > 250:
                pl["sp"] = rnd.sample(pl["sp"], 250)
    base = common.sub_scratch("spell")
    tasks = [(i, pl["ps"], pl["sp"], base) for (i, pl) in enumerate(plists)]
    with multiprocessing.get_context("fork").Pool(common.NCPU) as pool:
        outs = pool.map(_c13_task, tasks, chunksize=1)
    # redefinition mode: batches of parameter lists of equal arity, one process per batch
    by_arity: Dict[int, List[Any]] = {}
    for (i, pl) in enumerate(plists):
        by_arity.setdefault(len(pl["ps"]), []).append((i, pl["ps"], pl["sp"] if len(pl["sp"]) <= 60 else pl["sp"][::len(pl["sp"]) // 60]))
    batches = []
    for (ar, lst) in sorted(by_arity.items()):
        for k in range(0, len(lst), 6):
            batches.append((lst[k:k + 6], os.path.join(base, "redef_%d_%d" % (ar, k))))
    with multiprocessing.get_context("fork").Pool(common.NCPU) as pool:
        redef_outs = [o for part in pool.map(_c13_redef_task, batches, chunksize=1) for o in part]
    redef_specs = {i: sp for (lst, _) in batches for (i, ps, sp) in lst}
    outs = [dict(o, mode="fresh") for o in outs] + [dict(o, mode="redefined") for o in redef_outs]
    ncalls = 0
    bindings = set()
    for out in outs:
        pl = plists[out["idx"]]
        if out["mode"] == "redefined":
            pl = {"ps": pl["ps"], "sp": redef_specs[out["idx"]]}
        by_bind: Dict[str, List[Dict[str, Any]]] = {}
        for o in out["res"]:
            ncalls += 1
            s = pl["sp"][o["j"]]
            b = json.dumps(s["b"])
            o["sp"] = s["s"]
            by_bind.setdefault(b, []).append(o)
            if "exc" in o:
                rep.violation("C13|call-fails|%s|%s" % (o["route"], o["exc"].split(":")[0]),
                              {"params": pl["ps"], "spelling": s["s"], "route": o["route"], "exception": o["exc"]})
        sig_bind: Dict[str, str] = {}
        for (b, os_) in by_bind.items():
            bindings.add((json.dumps(pl["ps"]), b))
            oks = [o for o in os_ if "sig" in o]
            sigs = sorted(set(o["sig"] for o in oks))
            if len(sigs) > 1:
                a0 = oks[0]
                b0 = [o for o in oks if o["sig"] != a0["sig"]][0]
                rep.violation("C13|same-binding-two-signatures|%s%s" % (_spell_diff(pl["ps"], a0, b0), "|after-redefinition" if out["mode"] == "redefined" else ""),
                              {"params": pl["ps"], "binding": json.loads(b), "mode": out["mode"],
                               "call_1": {"route": a0["route"], "spelling": a0["sp"], "kw_reversed": a0["rev"], "sig": a0["sig"]},
                               "call_2": {"route": b0["route"], "spelling": b0["sp"], "kw_reversed": b0["rev"], "sig": b0["sig"]}})
            for sg in sigs:
                if sg in sig_bind and sig_bind[sg] != b:
                    rep.violation("C13|two-bindings-one-signature|%s%s" % (_bind_diff(json.loads(sig_bind[sg]), json.loads(b)), "|after-redefinition" if out["mode"] == "redefined" else ""),
                                  {"params": pl["ps"], "mode": out["mode"], "binding_1": json.loads(sig_bind[sg]), "binding_2": json.loads(b), "sig": sg})
                sig_bind.setdefault(sg, b)
        if out["idx"] == len(plists) // 2:
            rep.add_sample({"params": pl["ps"], "calls": [{"route": o["route"], "spelling": o["sp"], "sig": o.get("sig")} for o in out["res"][:6]]})
    rep.cov["traces_validated_against_impl"] = ncalls
    rep.cov["evaluations"] = ncalls
    rep.cov["parameter_lists"] = len(plists)
    rep.cov["distinct_nontrivial"] = len(bindings)
    rep.cov["rule"] = ("call = (parameter list with defaults from {None,0,False,'',1,'a'}, spelling: positional prefix / keywords in "
                       "both orders / defaults omitted or explicit, values from {None,0,1,True,'','a'}) made directly and as "
                       "literals in an evaluated function; distinct_nontrivial = number of distinct (function, binding) pairs")
    rep.cov["exhaustive"] = tier == "quick"
    rep.cov["exhaustive_part"] = "all parameter lists with <= %d parameters x all spellings (3-parameter spellings sampled in thorough; thorough adds every 4-parameter list over 2 values / 2 defaults, spellings sampled)" % maxp
    rep.assumptions += ["bool = int is a documented identification: True and 1 may share a signature",
                        "only ast.Constant literals count as literals seen in source"]
    return rep.finish()


def _spell_diff(ps, a, b) -> str:
    routes = "/".join(sorted({a["route"], b["route"]}))
    hows = set()
    vals = set()
    for (k, (x, y)) in enumerate(zip(a["sp"], b["sp"])):
        if x["how"] != y["how"]:
            hows.add("/".join(sorted({x["how"], y["how"]})))
            vals.add(x["v"])
    if not hows:
        # same spelling, different route (or keyword order)
        vals = set(x["v"] for x in a["sp"])
        hows.add("same-spelling" if a["rev"] == b["rev"] else "keyword-order")
        if "none" in vals:
            vals = {"none"}
    return "routes=%s|forms=%s|values=%s" % (routes, ",".join(sorted(hows)), ",".join(sorted(vals)))


def _bind_diff(b1, b2) -> str:
    d = [("%s~%s" % (json.dumps(x), json.dumps(y))) for (x, y) in zip(b1, b2) if x != y]
    return ";".join(d)
