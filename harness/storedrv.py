"""
Drives real Store implementations with operation sequences in the vocabulary of StoreModel,
returns the answers in the model's terms (and file-system side observations).
"""
import gc
import hashlib
import os
import shutil
import sys
import weakref
from collections import OrderedDict
from typing import Any, Dict, List, Optional, Tuple


class Obj(object):
    """A picklable, weak-referenceable result object."""

    def __init__(self, tag: str):
        self.tag = tag

    def __eq__(self, other: Any) -> bool:
        return isinstance(other, Obj) and other.tag == self.tag

    def __hash__(self) -> int:
        return hash(self.tag)


def real_key(k: str) -> str:
    return hashlib.sha256(k.encode()).hexdigest()


def value_of(k: str, none_keys: List[str]) -> Any:
    if k in none_keys:
        return None
    n = int(k[1:]) if k[1:].isdigit() else 0
    if n % 3 == 1:
        return "text-" + k
    if n % 3 == 2:
        return Obj(k)
    return ("tuple", k, 1.5)


def tree_snapshot(root: str) -> Dict[str, str]:
    res = {}
    for (dp, dn, fn) in os.walk(root, followlinks=False):
        for n in dn + fn:
            p = os.path.join(dp, n)
            if os.path.islink(p):
                res[p] = "link:" + os.readlink(p)
            elif os.path.isdir(p):
                res[p] = "dir"
            else:
                res[p] = "file"
    return res


def make_store(kind: str, root: str, cap: int, fresh_dirs: bool = True) -> Any:
    """kind in memory | local | dbfs ; cap > 0 wraps with the object cache through the public
    dds.set_store options where possible."""
    import dds
    import dds._api as api
    from dds._lru_store import LRUCacheStore
    from dds.store import LocalFileStore, MemoryStore
    if kind == "memory":
        st: Any = MemoryStore()
    elif kind == "local~linkdata":
        # the data directory is a symbolic link to a directory elsewhere, at another depth
        phys = os.path.join(root, "volumes", "big", "scratch", "data")
        os.makedirs(phys, exist_ok=True)
        os.makedirs(os.path.join(root, "store"), exist_ok=True)
        if not os.path.islink(os.path.join(root, "store", "data")):
            os.symlink(phys, os.path.join(root, "store", "data"))
        st = LocalFileStore(os.path.join(root, "store", "internal"), os.path.join(root, "store", "data"))
    elif kind == "local":
        st = LocalFileStore(os.path.join(root, "store", "internal"), os.path.join(root, "store", "data"))
    elif kind == "dbfs":
        from dds.codecs.databricks import DBFSStore, DBFSURI, CommitType
        from .fakedbutils import FakeDBUtils
        st = DBFSStore(DBFSURI.parse("dbfs:/internal"), DBFSURI.parse("dbfs:/data"),
                       FakeDBUtils(os.path.join(root, "dbfs")), CommitType.FULL)
    else:
        raise ValueError(kind)
    if cap > 0:
        st = LRUCacheStore(st, num_elem=cap)
    return st


class Runner(object):
    def __init__(self, kind: str, root: str, cap: int, keys: List[str], none_keys: List[str],
                 path_strs: Dict[int, str], track_alive: bool = False, handles: int = 1):
        self.kind = kind
        self.root = root
        self.cap = cap
        self.keys = keys
        self.none_keys = none_keys
        self.path_strs = path_strs
        self.rev_path = {v: k for (k, v) in path_strs.items()}
        self.rev_key = {real_key(k): k for k in keys}
        os.makedirs(root, exist_ok=True)
        # several store objects over the same directories (as two processes, or an old handle kept
        # while the store is reopened, would have): operations rotate over them
        self.handles = handles if kind != "memory" else 1
        self.stores = [make_store(kind, root, cap) for _ in range(self.handles)]
        self.nops = 0
        self.rotation = "irregular"      # or "alternate": strict alternation of the handles
        self.store = self.stores[0]
        self.track_alive = track_alive
        self.refs: List[Any] = []

    def data_dir(self) -> str:
        return os.path.join(self.root, "store", "data")

    def _classify(self, k: str, v: Any) -> Any:
        if v is None:
            return ["None"]
        exp = value_of(k, self.none_keys)
        if type(v) is type(exp) and v == exp:
            if self.track_alive and isinstance(v, Obj):
                self.refs.append(weakref.ref(v))
            return ["V", k]
        return ["WRONG", repr(v)[:80]]

    def alive(self) -> int:
        gc.collect()
        self.refs = [r for r in self.refs if r() is not None]
        return len(set(id(r()) for r in self.refs if r() is not None))

    def op(self, op: str, arg: Any) -> Dict[str, Any]:
        from .common import Watchdog
        with Watchdog(60):
            return self._op(op, arg)

    def _op(self, op: str, arg: Any) -> Dict[str, Any]:
        from dds.structures import DDSException
        out: Dict[str, Any] = {}
        self.nops += 1
        if self.handles > 1 and op != "reopen":
            # a deterministic but irregular rotation (or strict alternation)
            self.store = self.stores[(self.nops if self.rotation == "alternate" else self.nops * 7 // 3) % self.handles]
        try:
            if op == "store":
                self.store.store_blob(real_key(arg), value_of(arg, self.none_keys), None)
                out["ans"] = ["ok"]
            elif op == "has":
                out["ans"] = ["B", bool(self.store.has_blob(real_key(arg)))]
            elif op == "fetch":
                v = self.store.fetch_blob(real_key(arg))
                out["ans"] = self._classify(arg, v)
                del v
            elif op == "sync":
                m = OrderedDict((self.path_strs[p], real_key(k)) for (p, k) in sorted(arg))
                before = tree_snapshot(self.root) if self.kind.startswith("local") else None
                try:
                    self.store.sync_paths(m)
                    out["ans"] = ["ok"]
                except DDSException as e:
                    out["ans"] = ["refused", str(e)[:100]]
                if before is not None:
                    after = tree_snapshot(self.root)
                    dd = os.path.realpath(self.data_dir())
                    dd_lex = os.path.join(self.root, "store", "data")
                    new = [p for p in after if p not in before or before[p] != after[p]]
                    outside = [p for p in new
                               if not (os.path.realpath(os.path.dirname(p)) + os.sep).startswith(dd + os.sep)
                               and os.path.realpath(os.path.dirname(p)) != dd and p != dd_lex]
                    out["inside"] = not outside
                    out["outside"] = [os.path.relpath(p, self.root) for p in outside][:4]
                else:
                    out["inside"] = True
            elif op == "fetch_paths":
                ps = [self.path_strs[p] for p in sorted(arg)]
                try:
                    r = self.store.fetch_paths(ps)
                    out["ans"] = ["M", sorted([self.rev_path[p], self.rev_key.get(k, "?" + str(k)[:12])]
                                              for (p, k) in r.items())]
                except DDSException:
                    out["ans"] = ["missing"]
                except Exception as e:
                    # dbutils reports a missing file with a plain (JVM bridge) exception
                    if self.kind == "dbfs" and "FileNotFound" in str(e):
                        out["ans"] = ["missing"]
                    else:
                        raise
            elif op == "reopen":
                self.store = None
                self.stores = []
                gc.collect()
                self.stores = [make_store(self.kind, self.root, self.cap) for _ in range(self.handles)]
                self.store = self.stores[0]
                out["ans"] = ["ok"]
            else:
                raise ValueError(op)
        except BaseException as e:   # anything that is not a coded refusal
            out["ans"] = ["EXC", type(e).__name__, str(e)[:200]]
        if self.track_alive:
            out["alive"] = self.alive()
        return out

    def close(self) -> None:
        self.store = None
        shutil.rmtree(self.root, ignore_errors=True)


def norm_model_ans(op: str, ans: Any) -> Any:
    """Model answer (JSON from TLC) -> comparable form."""
    if op == "fetch_paths" and ans[0] == "M":
        return ["M", sorted([p, k] for (p, k) in ans[1])]
    return ans


def run_history(kind: str, cap: int, hist: List[Dict[str, Any]], root: str, keys: List[str],
                none_keys: List[str], path_strs: Dict[int, str], track_alive: bool = False,
                handles: int = 1) -> List[Dict[str, Any]]:
    r = Runner(kind, root, cap, keys, none_keys, path_strs, track_alive, handles)
    try:
        res = []
        for h in hist:
            res.append(r.op(h["op"], h["arg"]))
        return res
    finally:
        r.close()
