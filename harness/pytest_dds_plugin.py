"""pytest plugin (loaded with -p harness.pytest_dds_plugin, PYTHONPATH=/verif): runs the
repository's own tests with a recording store and evaluation begin / end markers, without
touching /repo.  One trace per test (per store object) is written to $VERIF_TRACE_OUT."""
import json
import os

_traces = []
_cur = {"events": None, "test": None, "noop": False}


def _new_trace(noop):
    t = {"test": _cur["test"], "noop": bool(noop), "events": []}
    _traces.append(t)
    _cur["events"] = t["events"]


def pytest_configure(config):
    import dds
    import dds._api as api
    from dds.store import Store, NoOpStore

    class Rec(Store):
        def __init__(self, inner):
            self.inner = inner

        def has_blob(self, key):
            r = self.inner.has_blob(key)
            _cur["events"].append({"e": "has", "k": key, "ans": bool(r)})
            return r

        def fetch_blob(self, key):
            r = self.inner.fetch_blob(key)
            _cur["events"].append({"e": "fetch", "k": key})
            return r

        def store_blob(self, key, blob, codec=None):
            _cur["events"].append({"e": "store", "k": key})
            return self.inner.store_blob(key, blob, codec)

        def sync_paths(self, paths):
            _cur["events"].append({"e": "sync", "m": [[str(p), k] for (p, k) in paths.items()]})
            return self.inner.sync_paths(paths)

        def fetch_paths(self, paths):
            try:
                r = self.inner.fetch_paths(paths)
            except BaseException:
                _cur["events"].append({"e": "fetch_paths", "ps": [str(p) for p in paths], "ok": False, "m": []})
                raise
            _cur["events"].append({"e": "fetch_paths", "ps": [str(p) for p in paths], "ok": True,
                                   "m": [[str(p), k] for (p, k) in r.items()]})
            return r

        def codec_registry(self):
            return self.inner.codec_registry()

    orig_set_store = api.set_store

    def set_store(*a, **k):
        orig_set_store(*a, **k)
        inner = api._store_var
        base = inner
        while hasattr(base, "_store"):
            base = base._store
        _new_trace(isinstance(base, NoOpStore))
        api._store_var = Rec(inner)
    api.set_store = set_store
    dds._set_store = set_store

    orig_new_ctx = api._eval_new_ctx

    def new_ctx(fun, path, args, kwargs, export_graph, extra_debug, stages):
        from dds.structures import ProcessingStage
        if _cur["events"] is None:
            _new_trace(False)
        _cur["events"].append({"e": "begin", "commit": ProcessingStage.PATH_COMMIT in stages,
                               "run": ProcessingStage.EVAL in stages})
        try:
            r = orig_new_ctx(fun, path, args, kwargs, export_graph, extra_debug, stages)
        except BaseException:
            _cur["events"].append({"e": "end", "ok": False})
            raise
        _cur["events"].append({"e": "end", "ok": True})
        return r
    api._eval_new_ctx = new_ctx


def pytest_runtest_setup(item):
    _cur["test"] = item.nodeid
    _cur["events"] = None


def pytest_sessionfinish(session, exitstatus):
    out = os.environ.get("VERIF_TRACE_OUT")
    if out:
        with open(out, "w") as f:
            json.dump([t for t in _traces if t["events"]], f)
