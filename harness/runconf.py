"""Generated module RunConf: the constants of one TLC run of DdsEval."""
from typing import List
from .common import tlax


def runconf(max_ver: int, store_kind: str, placement: str, plans: List[List[str]],
            gen: bool, shape_ids: List[int], layouts: List[str],
            stages: List[int] = [5], fail_classes: List[str] = [], log_ops: bool = False) -> str:
    return "\n".join([
        "---- MODULE RunConf ----",
        "MaxVer == %d" % max_ver,
        "StoreKind == %s" % tlax(store_kind),
        "Placement == %s" % tlax(placement),
        "Plans == %s" % tlax(set(tuple(p) for p in plans)),
        "GenMode == %s" % tlax(gen),
        "ShapeIds == %s" % tlax(set(shape_ids)),
        "Layouts == %s" % tlax(layouts),
        "StageSet == %s" % tlax(set(stages)),
        "FailClasses == %s" % tlax(set(fail_classes)),
        "LogOps == %s" % tlax(log_ops),
        "====", ""])
