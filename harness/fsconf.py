"""Generated module FsConf: scenario of one LocalStoreFSMC run."""
from typing import Any, Dict, List
from .common import Rec, tlax


def op_init():
    return Rec(op="init", q="", k="", stores=[], syncs=[])


def op_keep(q, k):
    return Rec(op="keep", q=q, k=k, stores=[], syncs=[])


def op_load(q):
    return Rec(op="load", q=q, k="", stores=[], syncs=[])


def op_evaln(stores, syncs):
    """one evaluation with nested keeps: keys in store order (inner first), (path, key) in commit order"""
    return Rec(op="evaln", q="", k="", stores=list(stores), syncs=[list(x) for x in syncs])


SCENARIOS: Dict[str, Dict[str, Any]] = {
    # ---- C06: victim v may be killed at any label; r runs afterwards
    "crash_first_keep": dict(
        keys=["kA"], paths=["q1"], pre={}, victims=["v"],
        script={"v": [op_init(), op_keep("q1", "kA")],
                "r": [op_init(), op_keep("q1", "kA"), op_load("q1"), op_keep("q1", "kA")]},
        wait={"v": [], "r": ["v"]}),
    "crash_rekeep": dict(
        keys=["kA0", "kA1"], paths=["q1"], pre={"q1": "kA0"}, victims=["v"],
        script={"v": [op_init(), op_keep("q1", "kA1")],
                "r": [op_init(), op_load("q1"), op_keep("q1", "kA1"), op_load("q1")]},
        wait={"v": [], "r": ["v"]}),
    "crash_two_paths": dict(
        keys=["kA", "kB"], paths=["q1", "q2"], pre={}, victims=["v"],
        script={"v": [op_init(), op_keep("q2", "kB"), op_keep("q1", "kA")],
                "r": [op_init(), op_keep("q2", "kB"), op_keep("q1", "kA"), op_load("q1"), op_load("q2")]},
        wait={"v": [], "r": ["v"]}),
    "crash_nested": dict(
        keys=["kA", "kB"], paths=["q1", "q2"], pre={}, victims=["v"],
        script={"v": [op_init(), op_evaln(["kB", "kA"], [("q1", "kA"), ("q2", "kB")])],
                "r": [op_init(), op_evaln(["kB", "kA"], [("q1", "kA"), ("q2", "kB")]), op_load("q1"), op_load("q2")]},
        wait={"v": [], "r": ["v"]}),
    "crash_nested_rekeep": dict(
        keys=["kA0", "kA1", "kB"], paths=["q1", "q2"], pre={"q1": "kA0", "q2": "kB"}, victims=["v"],
        script={"v": [op_init(), op_evaln(["kB", "kA1"], [("q1", "kA1"), ("q2", "kB")])],
                "r": [op_init(), op_load("q1"), op_load("q2"), op_evaln(["kB", "kA1"], [("q1", "kA1"), ("q2", "kB")]), op_load("q1")]},
        wait={"v": [], "r": ["v"]}),
    # single process, no crash: the scenarios whose real call traces are checked for conformance
    "conform_nested": dict(
        keys=["kA", "kB"], paths=["q1", "q2"], pre={}, victims=[],
        script={"v": [op_init(), op_evaln(["kB", "kA"], [("q1", "kA"), ("q2", "kB")])]},
        wait={"v": []}),
    "conform_rekeep": dict(
        keys=["kA0", "kA1"], paths=["q1"], pre={"q1": "kA0"}, victims=[],
        script={"v": [op_init(), op_evaln(["kA1"], [("q1", "kA1")])]},
        wait={"v": []}),
    # ---- C07: free interleaving of a and b, then a checker
    "race_same_keep_cold": dict(
        keys=["kA"], paths=["q1"], pre={}, victims=[],
        script={"a": [op_init(), op_keep("q1", "kA")], "b": [op_init(), op_keep("q1", "kA")],
                "z": [op_init(), op_keep("q1", "kA"), op_load("q1")]},
        wait={"a": [], "b": [], "z": ["a", "b"]}),
    "race_keep_vs_load": dict(
        keys=["kA0", "kA1"], paths=["q1"], pre={"q1": "kA0"}, victims=[],
        script={"a": [op_init(), op_keep("q1", "kA1")], "b": [op_init(), op_load("q1")],
                "z": [op_init(), op_keep("q1", "kA1"), op_load("q1")]},
        wait={"a": [], "b": [], "z": ["a", "b"]}),
    "race_rekeep_vs_rekeep": dict(
        keys=["kA0", "kA1"], paths=["q1"], pre={"q1": "kA0"}, victims=[],
        script={"a": [op_init(), op_keep("q1", "kA1")], "b": [op_init(), op_keep("q1", "kA1"), op_load("q1")],
                "z": [op_init(), op_load("q1")]},
        wait={"a": [], "b": [], "z": ["a", "b"]}),
    "race_three": dict(
        keys=["kA"], paths=["q1"], pre={}, victims=[],
        script={"a": [op_init(), op_keep("q1", "kA")], "b": [op_init(), op_keep("q1", "kA")],
                "c": [op_init(), op_keep("q1", "kA"), op_load("q1")]},
        wait={"a": [], "b": [], "c": []}),
}


def module(name: str, algo: str) -> str:
    sc = SCENARIOS[name]
    procs = list(sc["script"].keys())
    return "\n".join([
        "---- MODULE FsConf ----",
        "EXTENDS TLC",
        "Algo == %s" % tlax(algo),
        "Keys == %s" % tlax(set(sc["keys"])),
        "Paths == %s" % tlax(set(sc["paths"])),
        "Procs == %s" % tlax(set(procs)),
        "Script == %s" % tlax({p: list(v) for (p, v) in sc["script"].items()}),
        "WaitFor == %s" % tlax({p: set(v) for (p, v) in sc["wait"].items()}),
        "Victims == %s" % tlax(set(sc["victims"])),
        "Precommitted == %s" % tlax(dict(sc["pre"])),
        "====", ""])
