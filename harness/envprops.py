"""
C03 - signatures depend only on program content, never on the environment.

Observations (content identity, path, real signature, environment) are collected from
  * TLC-generated DdsEval histories replayed in a matrix of environments (hash seed, working
    directory, location of the package on disk, store kind, extra_debug, graph export, fresh /
    warm process, in-process variable edit + revert, notebook cells with redefinition), the
    content identity being the dependency cone the specification computes, and
  * the pinned corpus (corpus/*, signatures recorded in corpus/pinned.json),
and judged by TLC (spec/SigTrace.tla): the signature must be a function of the content, the
pinned table being the initial table.
"""
import copy
import json
import multiprocessing
import os
import shutil
import sys
import time
from typing import Any, Dict, List, Optional, Tuple

from . import common, evalfam, materialize as mat, oracles, replay, shapes as shp, worker
from .common import MachineryError, Report
from .shapes import Shape

PLANS = [["eval", "edit", "eval", "revert", "eval"], ["eval", "edit", "eval", "restart", "eval"], ["eval2", "eval"],
         ["evalB", "eval"]]


def environments(tier: str) -> List[Dict[str, Any]]:
    """A pairwise-covering selection (quick) of: hashseed x cwd x package location x store kind x
    extra_debug x graph export x worker kind."""
    E = [
        dict(name="base", hashseed="0", cwd="home", loc="a", store="memory", debug=True, graph=False, worker="pristine"),
        dict(name="seed1", hashseed="1", cwd="other", loc="b", store="local", debug=False, graph=True, worker="pristine"),
        dict(name="seed4242", hashseed="4242", cwd="home", loc="b", store="local+lru", debug=True, graph=True, worker="pristine"),
        dict(name="seedrandom", hashseed="random", cwd="other", loc="a", store="noop", debug=False, graph=False, worker="pristine"),
        dict(name="forked", hashseed=None, cwd="home", loc="c", store="memory+lru", debug=False, graph=True, worker="forked"),
        dict(name="cells", hashseed=None, cwd="other", loc="cells", store="memory", debug=True, graph=False, worker="cells"),
        dict(name="reload", hashseed=None, cwd="home", loc="a", store="memory", debug=False, graph=False, worker="reload"),
        # the pipeline as one file run as __main__, at two locations (content ids of their own)
        dict(name="script_a", hashseed="5", cwd="home", loc="a", store="memory", debug=True, graph=False, worker="pristine", script=True),
        dict(name="script_b", hashseed="77", cwd="other", loc="sb", store="local", debug=False, graph=True, worker="pristine", script=True),
    ]
    if tier == "thorough":
        E += [dict(name="t%d" % i, hashseed=str(7 * i + 3), cwd=("home", "other")[i % 2], loc="abc"[i % 3],
                   store=["memory", "local", "noop", "local+lru"][i % 4], debug=bool(i % 2), graph=bool((i // 2) % 2),
                   worker="pristine") for i in range(8)]
    return E


def _options(env: Dict[str, Any]) -> Dict[str, Any]:
    return {"extra_debug": bool(env["debug"])}


def _env_task(a) -> Dict[str, Any]:
    (idx, shape_json, hist, env, base) = a
    shape = Shape.from_json(shape_json)
    root = os.path.join(base, "e%d_%s" % (idx, env["name"]), env["loc"])
    os.makedirs(os.path.join(root, "cwd_home"), exist_ok=True)
    os.makedirs(os.path.join(root, "cwd_other"), exist_ok=True)
    try:
        store = env["store"]
        if store == "noop" and any(st["k"] == "load" for f in shape.funs for st in shape.stmts[f]):
            store = "memory"
        kw = {"dds_export_graph": True} if env["graph"] else None
        if env.get("script"):
            shape.real["main_script"] = True
        if env["worker"] == "cells":
            obs = run_cells(shape, hist, root, env)
        elif env["worker"] == "reload":
            obs = run_cells(shape, hist, root, env, child=_reload_child)
        else:
            penv = None
            if env["worker"] == "pristine":
                penv = {"hashseed": env["hashseed"], "cwd": os.path.join(root, "cwd_" + env["cwd"])}
            obs = replay.replay(shape, hist, root, store, pristine_env=penv, options=_options(env), eval_kwargs=kw)
        return {"idx": idx, "env": env["name"], "obs": {str(k): v for (k, v) in obs.items()}, "fatal": None}
    except BaseException:
        import traceback
        return {"idx": idx, "env": env["name"], "obs": {}, "fatal": traceback.format_exc()[-1200:]}
    finally:
        shutil.rmtree(os.path.join(base, "e%d_%s" % (idx, env["name"])), ignore_errors=True)


def run_cells(shape: Shape, hist: List[Dict[str, Any]], root: str, env: Dict[str, Any], child=None) -> Dict[int, Dict[str, Any]]:
    """Notebook placement: the functions are defined in IPython cells of one forked process; an
    edit re-runs the cell of what changed; every evaluation is preceded by a redefinition of one
    function in a later cell with identical source (must not change any signature)."""
    (r, w) = os.pipe()
    pid = os.fork()
    if pid == 0:
        code = 0
        try:
            os.close(r)
            res = (child or _cells_child)(shape, hist, root, env)
            with os.fdopen(w, "wb") as f:
                f.write(json.dumps(res).encode())
        except BaseException:
            import traceback
            traceback.print_exc()
            code = 3
        finally:
            common.cov_save()
            os._exit(code)
    os.close(w)
    with os.fdopen(r, "rb") as f:
        data = f.read()
    os.waitpid(pid, 0)
    if not data:
        raise MachineryError("cells worker died")
    return {int(k): v for (k, v) in json.loads(data.decode()).items()}


def _cells_child(shape: Shape, hist: List[Dict[str, Any]], root: str, env: Dict[str, Any]) -> Dict[str, Any]:
    from IPython.core.interactiveshell import InteractiveShell
    import dds
    import dds._api as api
    from dds.store import MemoryStore
    os.makedirs(root, exist_ok=True)
    os.chdir(os.path.join(root, "cwd_" + env["cwd"]))
    from traitlets.config import Config
    cfg = Config()
    cfg.HistoryManager.hist_file = ":memory:"     # no shared sqlite file between concurrent workers
    sh = InteractiveShell.instance(config=cfg)
    first = [r for r in hist if r["op"] == "eval"][0]["prog"]
    files = mat.files_of(shape, dict(first, layout="one"))
    with open(os.path.join(root, "_vlog.py"), "w") as f:
        f.write(files["_vlog.py"])
    sys.path.insert(0, root)

    def run(src: str) -> None:
        res = sh.run_cell(src, store_history=True)
        if res.error_before_exec or res.error_in_exec:
            raise RuntimeError("cell failed: %r\n%s" % (res.error_in_exec or res.error_before_exec, src))
    run("\n".join(mat.HEADER) + "\n")
    if any(t == "dataclass_local" for t in shape.vtype.values()):
        run("\n".join(mat.DCM_SRC[2:]) + "\n")
    dds.set_option("extra_debug", bool(env["debug"]))
    ops: List[Any] = []
    api._store_var = worker.make_recording_store(MemoryStore(), ops)
    names = {g: g for g in shape.funs}
    cur: Dict[str, str] = {}
    out: Dict[str, Any] = {}
    neval = 0
    import _vlog as L
    for (h, rec) in enumerate(hist):
        if rec["op"] != "eval":
            continue
        prog = rec["prog"]
        for v in shape.vars:
            src = "%s = %s\n" % (mat.pyname(shape, v), mat.var_value_src(shape, v, prog["vval"][v]))
            if cur.get("var:" + v) != src:
                inpl = mat.var_inplace_stmt(shape, v, prog["vval"][v])
                run((inpl + "\n") if (inpl and ("var:" + v) in cur) else src)
                cur["var:" + v] = src
        for f in reversed(shape.funs):      # callees first
            src = "\n".join(mat._fun_src(shape, f, prog, names)) + "\n"
            if cur.get("fun:" + f) != src:
                run(src)
                cur["fun:" + f] = src
        # redefinition in a later cell, identical source
        g = shape.funs[neval % len(shape.funs)]
        run(cur["fun:" + g])
        neval += 1
        del ops[:]
        del L.LOG[:]
        rootf = rec.get("root", shape.root)
        rpath = [x["path"] for x in shape.roots if x["f"] == rootf][0]
        o: Dict[str, Any] = {"op": "eval"}
        try:
            common.arm(120)
            fun = sh.user_ns[rootf]
            rspec = [x for x in shape.roots if x["f"] == rootf][0]
            args = [L.ARG_VALS[prog["rarg"][rec.get("ri", 1) - 1]]] if rspec.get("arg") else []
            if rec["style"] == "direct":
                r = fun(*args)
            elif rec["style"] == "eval":
                r = dds.eval(fun, *args)
            else:
                r = dds.keep(rpath, fun, *args)
            o["result"] = worker._norm(r)
            o["err"] = None
        except BaseException as e:
            o["result"] = None
            o["err"] = worker._exc_info(e)
        o["log"] = list(L.LOG)
        o["ops"] = list(ops)
        out[str(h)] = o
    common.disarm()
    return out


def _reload_child(shape: Shape, hist: List[Dict[str, Any]], root: str, env: Dict[str, Any]) -> Dict[str, Any]:
    """One long-lived process in which every edit is a rewrite of the module file followed by
    importlib.reload (what an editor + autoreload session does): the redefined functions keep their file
    name and line numbers, and after a cosmetic edit even their byte code (seeded change R7-C03)."""
    import importlib
    import linecache
    sys.dont_write_bytecode = True       # same size + same second would otherwise revive a stale .pyc
    import dds
    import dds._api as api
    from dds.store import MemoryStore
    os.makedirs(root, exist_ok=True)
    os.chdir(os.path.join(root, "cwd_" + env["cwd"]))
    sys.path.insert(0, root)
    dds.set_option("extra_debug", bool(env["debug"]))
    ops: List[Any] = []
    api._store_var = worker.make_recording_store(MemoryStore(), ops)
    dds.accept_module(mat.PKG)
    cur = None
    mod = None
    L = None
    out: Dict[str, Any] = {}
    for (h, rec) in enumerate(hist):
        if rec["op"] != "eval":
            continue
        prog = dict(rec["prog"], layout="one")
        files = mat.files_of(shape, prog)
        if files != cur:
            mat.write_tree(root, files)
            linecache.clearcache()
            importlib.invalidate_caches()
            if mod is None:
                mod = importlib.import_module(mat.PKG + ".m")
                L = importlib.import_module("_vlog")
            else:
                for name in sorted(sys.modules):
                    if name.split(".")[0] in (mat.PKG, mat.EXT_PKG) and getattr(sys.modules[name], "__file__", None) \
                            and not sys.modules[name].__file__.endswith("__init__.py"):
                        importlib.reload(sys.modules[name])
                mod = sys.modules[mat.PKG + ".m"]
            cur = files
        del ops[:]
        del L.LOG[:]
        rootf = rec.get("root", shape.root)
        rspec = [x for x in shape.roots if x["f"] == rootf][0]
        o: Dict[str, Any] = {"op": "eval"}
        try:
            common.arm(120)
            fun = getattr(mod, rootf)
            args = [L.ARG_VALS[prog["rarg"][rec.get("ri", 1) - 1]]] if rspec.get("arg") else []
            if rec["style"] == "direct":
                r = fun(*args)
            elif rec["style"] == "eval":
                r = dds.eval(fun, *args)
            else:
                r = dds.keep(rspec["path"], fun, *args)
            o["result"] = worker._norm(r)
            o["err"] = None
        except BaseException as e:
            o["result"] = None
            o["err"] = worker._exc_info(e)
        o["log"] = list(L.LOG)
        o["ops"] = list(ops)
        out[str(h)] = o
    common.disarm()
    return out


def run_corpus(corpus: str, env: Dict[str, Any]) -> Dict[str, Dict[str, str]]:
    """Evaluates every program of the corpus in a fresh interpreter; returns
    {"<program>::<evaluation>": {path: signature}}."""
    res: Dict[str, Dict[str, str]] = {}
    progs = sorted(d for d in os.listdir(corpus) if os.path.isfile(os.path.join(corpus, d, "manifest.json")))
    tasks = [(corpus, p, env) for p in progs]
    with multiprocessing.get_context("fork").Pool(min(common.NCPU, max(1, len(tasks)))) as pool:
        for part in pool.map(_corpus_task, tasks):
            res.update(part)
    return res


def _corpus_task(a) -> Dict[str, Dict[str, str]]:
    (corpus, p, env) = a
    d = os.path.join(corpus, p)
    with open(os.path.join(d, "manifest.json")) as f:
        man = json.load(f)
    src = d
    tmp = None
    if env.get("copy_to"):
        tmp = os.path.join(env["copy_to"], p)
        shutil.copytree(d, tmp)
        src = tmp
    out: Dict[str, Dict[str, str]] = {}
    try:
        for ev in man["evals"]:
            # one process per evaluation: fresh store, nothing served
            seg = {"root_dir": src, "mode": "dds", "modules": man["modules"], "accept": man["accept"],
                   "store": {"kind": env.get("store", "memory")} if env.get("store", "memory") in ("memory", "noop") else
                   {"kind": "local", "internal_dir": os.path.join(env["copy_to"], p + "_st", ev["id"], "i"),
                    "data_dir": os.path.join(env["copy_to"], p + "_st", ev["id"], "d")},
                   "vlog": os.path.exists(os.path.join(src, "_vlog.py")),
                   "options": {"extra_debug": bool(env.get("debug", True))},
                   "steps": [{"op": "eval", "h": 0, "style": ev["style"], "root": ev["root"], "module": ev["module"],
                              "root_path": ev.get("root_path", "/corpus/root_out"), "args": ev.get("args") or []}]}
            r = worker.run_pristine(seg, hashseed=env.get("hashseed", "0"), cwd=env.get("cwd"))
            if r.get("fatal"):
                raise MachineryError("corpus program %s::%s failed: %s" % (p, ev["id"], r["fatal"]))
            st = r["steps"][0]
            if st.get("err") is not None:
                out["%s::%s" % (p, ev["id"])] = {"__error__": "%s:%s" % (st["err"]["type"], st["err"].get("code"))}
                continue
            sy = [o for o in st["ops"] if o[0] == "sync"]
            out["%s::%s" % (p, ev["id"])] = dict(sy[-1][1]) if sy else {}
    finally:
        if tmp:
            shutil.rmtree(tmp, ignore_errors=True)
    return out


def run_c03(tier: str) -> int:
    rep = Report("C03", tier)
    evalfam.import_dds()
    S = [s for s in shp.core_shapes()] + shp.vtype_shapes(["bool", "dict", "tuplelist", "relpath", "dataclass_local"]) + [s for s in shp.load_shapes() if s.name in ("ld_df", "ld_earlier")]
    r = evalfam.tlc_design(S, PLANS, 1, "memory", "cells", ["one"], name="design03")
    rep.cov["states"] = r.distinct
    rep.cov["transitions"] = r.generated
    # histories: in-process edits need the "cells" placement of the spec (no restart on text edits is
    # irrelevant here: only variable edits keep the process, see below)
    (_, hs) = evalfam.tlc_generate(S, PLANS, 1, "memory", "package", ["one"], name="g03_")
    byname = {s.name: s for s in S}
    items = []
    for h in hs:
        eds = [x for x in h["hist"] if x["op"] == "edit"]
        if eds and eds[-1]["kind"] not in ("var", "body", "arg", "cos"):
            continue
        items.append((byname[h["shape"]], h["hist"]))
    if tier == "quick":
        # stratified: a few histories per shape, in-process variable edits first
        per: Dict[str, List[Any]] = {}
        for it in items:
            per.setdefault(it[0].name, []).append(it)
        items = []
        for (name, its) in sorted(per.items()):
            its.sort(key=lambda x: 0 if any(r["op"] == "edit" and r["kind"] == "var" for r in x[1]) else 1)
            items += its[:4]
            # and one history per plan whose edit is cosmetic (a comment: same byte code, same lines)
            cos = [x for x in its[4:] if any(r["op"] == "edit" and r["kind"] == "cos" for r in x[1])]
            items += cos[:2]
    envs = environments(tier)
    base = common.sub_scratch("envs")
    tasks = []
    for (i, (s, h)) in enumerate(items):
        for e in envs:
            tasks.append((i, s.to_json(), h, e, base))
    with multiprocessing.get_context("fork").Pool(common.NCPU) as pool:
        outs = pool.map(_env_task, tasks, chunksize=1)
    observations: List[Dict[str, Any]] = []
    meta: List[Dict[str, Any]] = []
    nruns = 0
    for (t, out) in zip(tasks, outs):
        (i, sj, h, e, _) = t
        if out["fatal"]:
            raise MachineryError("environment run failed (%s, %s): %s" % (sj["name"], e["name"], out["fatal"]))
        nruns += 1
        for (hidx, rec) in enumerate(h):
            if rec["op"] != "eval" or rec["err"] not in ("", []):
                continue
            o = out["obs"].get(str(hidx), {})
            if o.get("fatal"):
                raise MachineryError("worker failure in env %s: %s" % (e["name"], o["fatal"]))
            if o.get("err") is not None:
                rep.violation("C03|evaluation-fails-in-environment|%s|%s" % (e["name"], o["err"]["type"]),
                              {"shape": sj, "history": h[: hidx + 1], "environment": e, "error": o["err"]})
                continue
            sy = [x for x in (o.get("ops") or []) if x[0] == "sync"]
            if not sy:
                continue     # noop store still receives sync_paths; other stores always do
            real = dict(sy[-1][1])
            for (p, c) in rec["req"]:
                if p in real:
                    observations.append({"c": ("script:" if e.get("script") else "") + sj["name"] + "|" + oracles.cone_id(c), "p": p, "k": real[p], "e": e["name"]})
                    meta.append({"shape": sj["name"], "eval_index": hidx, "history": h[: hidx + 1], "environment": e})
    # the pinned corpus
    corpus = os.path.join(common.VERIF, "corpus")
    with open(os.path.join(corpus, "pinned.json")) as f:
        pinned = json.load(f)
    cenvs = [{"hashseed": "1", "store": "memory", "debug": True},
             {"hashseed": "random", "store": "local", "debug": False, "copy_to": common.sub_scratch("corpus_copy"),
              "cwd": common.sub_scratch("corpus_cwd")}]
    if tier == "thorough":
        # (the noop store cannot serve dds.load: corpus programs with loads need a real store)
        cenvs.append({"hashseed": "99", "store": "memory", "debug": False, "copy_to": common.sub_scratch("corpus_copy2")})
    pinned_rows = []
    for (ek, m) in sorted(pinned.items()):
        for (p, k) in sorted(m.items()):
            pinned_rows.append({"c": "corpus|%s|%s" % (ek, p), "k": k})
    ncorpus = 0
    for (ci, ce) in enumerate(cenvs):
        got = run_corpus(corpus, ce)
        ncorpus += len(got)
        if set(got) != set(pinned):
            raise MachineryError("corpus and pinned.json list different evaluations: %s" % sorted(set(got) ^ set(pinned))[:5])
        for (ek, m) in sorted(got.items()):
            for (p, k) in sorted(m.items()):
                observations.append({"c": "corpus|%s|%s" % (ek, p), "p": p, "k": k, "e": "corpus-env-%d" % ci})
                meta.append({"corpus_evaluation": ek, "environment": {k2: v for (k2, v) in ce.items() if k2 not in ("copy_to", "cwd")}})
            for p in pinned[ek]:
                if p not in m:
                    rep.violation("C03|pinned-path-missing|%s" % ek.split("::")[0], {"evaluation": ek, "path": p, "got": m})
    # binding self-test: one more observation, an already seen content under a signature that is not
    # its own, must be reported as a clash at exactly that position
    n_real = len(observations)
    if n_real:
        observations.append({"c": observations[0]["c"], "k": "0" * 64, "p": observations[0]["p"], "e": "altered"})
    # TLC judges
    d = common.stage_spec({}, "sigtrace")
    tf = os.path.join(d, "obs.json")
    with open(tf, "w") as f:
        json.dump({"pinned": pinned_rows, "obs": [{"c": o["c"], "k": o["k"]} for o in observations]}, f)
    tr = common.run_tlc(d, "SigTrace.tla", "SigTrace.cfg", workers=1, timeout=1200, env={"TRACE_FILE": tf})
    common.tlc_must_pass(tr, "SigTrace")
    done = tr.printed("DONE")
    if not done or done[-1]["n"] != len(observations):
        raise MachineryError("SigTrace consumed %s of %d observations" % (done[-1]["n"] if done else None, len(observations)))
    if n_real:
        if not any(cl["at"] == n_real + 1 for cl in done[-1]["clashes"]):
            raise MachineryError("binding self-test: SigTrace accepted an altered signature observation")
        rep.cov["corrupted_observations_rejected"] = 1
        observations = observations[:n_real]
    for cl in done[-1]["clashes"]:
        if cl["at"] > n_real:
            continue
        o = observations[cl["at"] - 1]
        m = meta[cl["at"] - 1]
        if cl["pinned"]:
            rep.violation("C03|pinned-signature-changed|%s" % o["c"].split("|")[1].split("::")[0],
                          {"evaluation": o["c"], "pinned": pinned_rows[cl["first"] - 1]["k"], "now": o["k"], "environment": m.get("environment")})
        else:
            o1 = observations[cl["first"] - 1]
            m1 = meta[cl["first"] - 1]
            diff = _env_diff(m1.get("environment", {}), m.get("environment", {}))
            same_env = o1["e"] == o["e"]
            rep.violation("C03|signature-depends-on|%s" % ("history-in-process" if same_env else diff),
                          {"content": o["c"][:300], "path": o["p"], "first": {"sig": o1["k"], **m1}, "second": {"sig": o["k"], **m}})
    rep.cov["traces_validated_against_impl"] = nruns + ncorpus
    rep.cov["environment_runs"] = nruns
    rep.cov["corpus_evaluations"] = ncorpus
    rep.cov["observations_judged_by_tlc"] = len(observations)
    rep.cov["distinct_contents"] = done[-1]["distinct"]
    rep.cov["evaluations"] = nruns + ncorpus
    rep.cov["distinct_nontrivial"] = done[-1]["distinct"]
    rep.cov["rule"] = ("observation = (dependency cone of a kept node as computed by DdsEval | corpus evaluation and path, real "
                       "signature from Store.sync_paths, environment); distinct_nontrivial = number of distinct contents each "
                       "observed in several environments / history positions")
    rep.cov["environments"] = [e["name"] for e in envs]
    rep.cov["exhaustive"] = False
    rep.add_sample({"observation": observations[0], "context": {k: v for (k, v) in meta[0].items() if k != "history"}})
    rep.add_sample({"observation": observations[-1], "context": meta[-1]})
    rep.assumptions += ["finite sample of hash seeds and environments", "sha256 and CPython ast / inspect determinism"]
    if done[-1]["distinct"] < 10:
        rep.finish()
        raise MachineryError("vacuity guard")
    return rep.finish()


def _env_diff(a: Dict[str, Any], b: Dict[str, Any]) -> str:
    ks = [k for k in ("worker", "store", "debug", "graph", "hashseed", "cwd", "loc") if a.get(k) != b.get(k)]
    if "worker" in ks and "cells" in (a.get("worker"), b.get("worker")):
        return "notebook-cells-vs-package"
    return ",".join(ks) or "nothing"


def replay_file(prop: str, path: str) -> int:
    with open(path) as f:
        v = json.load(f)
    print("cause: %s" % v["fingerprint"])
    print(json.dumps(v["detail"], indent=1)[:3000])
    return 1
