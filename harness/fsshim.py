"""
File-system interposition inside a worker process (C06, C07, C16).

Every Python-level file-system call that touches a path below the watched roots is announced
to a controller *before* it is performed; the process then blocks until the controller lets
it proceed (or kills it).  After the call its result is reported.  A write(data) on a watched
file is performed as two calls (first half + flush, second half + flush), so that torn writes
are real states.  Paths outside the watched roots (sources read by inspect, site-packages,
...) are not interposed at all.

The shim wraps every entry point, not only the ones today's dds/store.py uses, so that a
store rewritten with temporary files and os.replace is observed equally.

Controller protocol (pipes, JSON lines):
    worker -> controller   {"t": "req", "seq": n, "op": name, "args": [...]}
    controller -> worker   b"g"           (go)          -- or SIGKILL instead
    worker -> controller   {"t": "res", "seq": n, "ok": bool, "res": ...}
    worker -> controller   {"t": "api", ...}            (API-level events, not blocking)
"""
import builtins
import io
import json
import os
from typing import Any, Callable, Dict, List, Optional

_real: Dict[str, Any] = {}
_state: Dict[str, Any] = {"roots": [], "wfd": None, "rfd": None, "seq": 0, "on": False, "depth": 0}


def _watched(p: Any) -> bool:
    if not _state["on"] or _state["depth"] > 0:
        return False
    try:
        s = os.fspath(p)
    except TypeError:
        return False
    if isinstance(s, bytes):
        s = s.decode("utf-8", "replace")
    if not os.path.isabs(s):
        s = os.path.join(_real["getcwd"](), s)
    s = os.path.normpath(s)
    return any(s == r or s.startswith(r + os.sep) for r in _state["roots"])


def _send(msg: Dict[str, Any]) -> None:
    data = (json.dumps(msg) + "\n").encode("utf-8")
    _real["write"](_state["wfd"], data)


def _wait_go() -> None:
    b = _real["read"](_state["rfd"], 1)
    if b != b"g":
        os._exit(77)   # controller went away


def _rel(p: Any) -> str:
    s = os.fspath(p)
    if isinstance(s, bytes):
        s = s.decode("utf-8", "replace")
    if not os.path.isabs(s):
        s = os.path.join(_real["getcwd"](), s)
    return s


def api_event(kind: str, **kw: Any) -> None:
    """Non-blocking API-level event (keep returned v, load returned v, exception)."""
    if _state["on"]:
        msg = {"t": "api", "kind": kind}
        msg.update(kw)
        _send(msg)


def _call(op: str, args: List[Any], thunk: Callable[[], Any], show: Callable[[Any], Any] = lambda r: None) -> Any:
    _state["seq"] += 1
    seq = _state["seq"]
    _send({"t": "req", "seq": seq, "op": op, "args": args})
    _wait_go()
    _state["depth"] += 1
    try:
        r = thunk()
    except BaseException as e:
        _state["depth"] -= 1
        _send({"t": "res", "seq": seq, "ok": False, "res": type(e).__name__})
        raise
    _state["depth"] -= 1
    _send({"t": "res", "seq": seq, "ok": True, "res": show(r)})
    return r


class FileProxy(object):
    """Wraps a real binary/text file object opened on a watched path."""

    def __init__(self, f: Any, path: str, writing: bool):
        self._f = f
        self._path = path
        self._writing = writing
        self._closed = False

    # -- writing ------------------------------------------------------------------------
    def write(self, data: Any) -> int:
        n = len(data)
        if n == 0:
            return self._f.write(data)
        h = max(1, n // 2)

        def part(chunk: Any) -> Callable[[], Any]:
            def t() -> Any:
                r = self._f.write(chunk)
                self._f.flush()
                return r
            return t
        _call("write", [self._path, 1, h], part(data[:h]))
        if n > h:
            _call("write", [self._path, 2, n - h], part(data[h:]))
        else:
            _call("write", [self._path, 2, 0], lambda: None)
        return n

    def writelines(self, lines: Any) -> None:
        for x in lines:
            self.write(x)

    def flush(self) -> None:
        self._f.flush()

    # -- reading ------------------------------------------------------------------------
    def read(self, *a: Any) -> Any:
        return _call("read", [self._path], lambda: self._f.read(*a), lambda r: len(r))

    def readline(self, *a: Any) -> Any:
        return _call("read", [self._path], lambda: self._f.readline(*a), lambda r: len(r))

    def readinto(self, b: Any) -> Any:
        return _call("read", [self._path], lambda: self._f.readinto(b), lambda r: r)

    def peek(self, *a: Any) -> Any:
        return self._f.peek(*a)

    def __iter__(self) -> Any:
        return iter(self._f)

    # -- misc ---------------------------------------------------------------------------
    def close(self) -> None:
        if not self._closed:
            self._closed = True
            _call("close", [self._path], lambda: self._f.close())

    def __enter__(self) -> "FileProxy":
        return self

    def __exit__(self, *a: Any) -> None:
        self.close()

    def __getattr__(self, name: str) -> Any:
        return getattr(self._f, name)

    def __del__(self) -> None:
        try:
            if not self._closed:
                self._f.close()
        except BaseException:
            pass


_fds: Dict[int, str] = {}     # low-level descriptors opened on watched paths


def _os_open(path: Any, flags: int, *a: Any, **k: Any) -> int:
    if not _watched(path):
        return _real["os_open"](path, flags, *a, **k)
    p = _rel(path)
    writing = bool(flags & (os.O_WRONLY | os.O_RDWR | os.O_CREAT | os.O_TRUNC | os.O_APPEND))
    fd = _call("open_w" if writing else "open_r", [p, "fd"], lambda: _real["os_open"](path, flags, *a, **k))
    _fds[fd] = p
    return fd


def _os_close(fd: int) -> None:
    p = _fds.pop(fd, None)
    if p is None or not _state["on"] or _state["depth"] > 0:
        return _real["os_close"](fd)
    return _call("close", [p], lambda: _real["os_close"](fd))


def _os_write(fd: int, data: Any) -> int:
    p = _fds.get(fd)
    if p is None or not _state["on"] or _state["depth"] > 0:
        return _real["write"](fd, data)
    n = len(data)
    h = max(1, n // 2)
    _call("write", [p, 1, h], lambda: _real["write"](fd, data[:h]))
    _call("write", [p, 2, n - h], lambda: (_real["write"](fd, data[h:]) if n > h else 0))
    return n


def _open(file: Any, mode: str = "r", *a: Any, **k: Any) -> Any:
    if isinstance(file, int) and file in _fds and _state["on"] and _state["depth"] == 0:
        p = _fds.pop(file)
        return FileProxy(_real["open"](file, mode, *a, **k), p, any(c in mode for c in "wax+"))
    if isinstance(file, int) or not _watched(file):
        return _real["open"](file, mode, *a, **k)
    path = _rel(file)
    writing = any(c in mode for c in "wax+")
    f = _call("open_w" if writing else "open_r", [path, mode], lambda: _real["open"](file, mode, *a, **k))
    return FileProxy(f, path, writing)


def _wrap1(name: str, show: Callable[[Any], Any] = lambda r: None) -> Callable[..., Any]:
    real = _real[name]

    def w(path: Any, *a: Any, **k: Any) -> Any:
        if isinstance(path, int) or not _watched(path):
            return real(path, *a, **k)
        return _call(name, [_rel(path)], lambda: real(path, *a, **k), show)
    w.__name__ = name
    return w


def _wrap2(name: str) -> Callable[..., Any]:
    real = _real[name]

    def w(src: Any, dst: Any, *a: Any, **k: Any) -> Any:
        # symlink(target, linkpath): the link path decides; rename/replace/link: either
        if not (_watched(dst) or (name != "symlink" and _watched(src))):
            return real(src, dst, *a, **k)
        return _call(name, [os.fspath(src) if name == "symlink" else _rel(src), _rel(dst)],
                     lambda: real(src, dst, *a, **k))
    w.__name__ = name
    return w


def _show_stat(r: Any) -> Any:
    import stat as st
    return "dir" if st.S_ISDIR(r.st_mode) else ("link" if st.S_ISLNK(r.st_mode) else "file")


def install(roots: List[str], wfd: int, rfd: int) -> None:
    """Start interposing.  roots: absolute directories to watch."""
    if _real:
        raise RuntimeError("shim already installed")
    _real.update({
        "open": builtins.open, "write": os.write, "read": os.read, "getcwd": os.getcwd,
        "stat": os.stat, "lstat": os.lstat, "mkdir": os.mkdir, "rmdir": os.rmdir,
        "unlink": os.unlink, "remove": os.remove, "symlink": os.symlink, "readlink": os.readlink,
        "rename": os.rename, "replace": os.replace, "link": os.link, "listdir": os.listdir,
        "scandir": os.scandir, "utime": os.utime, "chmod": os.chmod, "truncate": os.truncate,
        "os_open": os.open, "os_close": os.close,
    })
    _state.update({"roots": [os.path.normpath(r) for r in roots], "wfd": wfd, "rfd": rfd, "seq": 0})
    builtins.open = _open
    io.open = _open
    os.stat = _wrap1("stat", _show_stat)
    os.lstat = _wrap1("lstat", _show_stat)
    os.mkdir = _wrap1("mkdir")
    os.rmdir = _wrap1("rmdir")
    os.unlink = _wrap1("unlink")
    os.remove = _wrap1("remove")
    os.readlink = _wrap1("readlink", lambda r: r)
    os.listdir = _wrap1("listdir", lambda r: sorted(r))
    os.utime = _wrap1("utime")
    os.chmod = _wrap1("chmod")
    os.truncate = _wrap1("truncate")
    os.symlink = _wrap2("symlink")
    os.rename = _wrap2("rename")
    os.replace = _wrap2("replace")
    os.link = _wrap2("link")
    os.open = _os_open
    os.close = _os_close
    os.write = _os_write
    _state["on"] = True


def pause() -> None:
    _state["on"] = False


def resume() -> None:
    _state["on"] = True
