"""
The generated program family of DESIGN.md 4.2: call-graph shapes handed to TLC as data
(module ShapeData) and to the materialiser.  Shapes are enumerated here; everything that
happens to a shape (edits, evaluations, restarts, failures) is enumerated by TLC.
"""
import itertools
from typing import Any, Dict, List, Optional

from .common import Rec, tlax

VTYPES_ALL = ["int", "str", "float", "bool", "tuple", "list", "dict", "none", "date",
              "purepath", "namedtuple", "dataclass", "tuplelist", "relpath", "dataclass_local"]
# number of distinct values available per type minus one
VMAX = {"bool": 1, "none": 1, "tuplelist": 1}


def stmt(k: str, g: str = "", p: str = "", a: str = "none", lay: str = "1") -> Dict[str, str]:
    return {"k": k, "g": g, "p": p, "a": a, "lay": lay}


def call(g, a="none"): return stmt("call", g, a=a)
def ref(g): return stmt("ref", g)
def keep(p, g, a="none", lay="1"): return stmt("keep", g, p, a, lay)
def load(p): return stmt("load", p=p)
def nested_eval(g): return stmt("eval", g)


class Shape(object):
    def __init__(self, name: str, root: str, stmts: Dict[str, List[Dict[str, str]]],
                 reads: Optional[Dict[str, List[str]]] = None,
                 vtype: Optional[Dict[str, str]] = None,
                 dpath: Optional[Dict[str, str]] = None,
                 root_path: str = "/root_out",
                 real: Optional[Dict[str, Any]] = None,
                 tags: Optional[List[str]] = None,
                 root2: Optional[str] = None,
                 untracked: Optional[List[str]] = None,
                 root_arg: bool = False,
                 defaults: Optional[List[str]] = None):
        self.name = name
        self.root = root
        self.funs = list(stmts.keys())
        self.stmts = stmts
        self.reads = {f: list((reads or {}).get(f, [])) for f in self.funs}
        self.vtype = dict(vtype or {})
        self.vars = sorted(self.vtype.keys())
        self.dpath = {f: (dpath or {}).get(f, "") for f in self.funs}
        self.root_path = root_path
        # Python-only realisation choices (import forms, variable access forms, ...)
        self.real = dict(real or {})
        self.tags = list(tags or [])
        # parameters: a function has parameter x iff some site passes an argument to it
        self.param: Dict[str, str] = {f: "none" for f in self.funs}
        for f in self.funs:
            for s in self.stmts[f]:
                if s["k"] in ("call", "ref", "keep") and s["a"] != "none":
                    g = s["g"]
                    if s["a"] == "default":
                        self.param[g] = "xdef"
                    elif self.param[g] == "none":
                        self.param[g] = "x"
        # functions declared to have a literal default although no site relies on it
        self.defaults = list(defaults or [])
        for g in self.defaults:
            self.param[g] = "xdef"
        # a function with a default also may get explicit values; one without default never
        # is called with "default"
        # entry styles, primary first
        self.styles = ["direct", "eval"] if self.dpath[root] else ["keep", "eval"]
        self.root2 = root2
        self.untracked = list(untracked or [])
        self.root_arg = bool(root_arg)
        if self.root_arg:
            assert not self.dpath[root], "a data function takes no argument"
            self.param[root] = "x"
        self.roots = [{"f": root, "path": root_path, "styles": self.styles, "arg": self.root_arg}]
        if root2:
            self.roots.append({"f": root2, "path": root_path + "_b", "arg": False,
                               "styles": ["direct", "eval"] if self.dpath[root2] else ["keep", "eval"]})
        self.check()

    def check(self) -> None:
        for f in self.funs:
            for s in self.stmts[f]:
                if s["k"] in ("call", "ref", "keep", "eval"):
                    assert s["g"] in self.funs, (self.name, s)
            for v in self.reads[f]:
                assert v in self.vtype, (self.name, v)

    def all_paths(self) -> List[str]:
        res = set(self.kept_paths())
        for r in self.roots:
            res.add(r["path"])
        for f in self.funs:
            for s in self.stmts[f]:
                if s["k"] == "load":
                    res.add(s["p"])
        return sorted(res)

    def kept_paths(self) -> List[str]:
        res = []
        for f in self.funs:
            for s in self.stmts[f]:
                if s["k"] == "keep":
                    res.append(s["p"])
        res += [p for p in self.dpath.values() if p]
        return sorted(set(res))

    def to_tla(self) -> str:
        r = Rec(
            name=self.name,
            funs=list(self.funs),
            roots=[Rec(f=r["f"], path=r["path"], styles=list(r["styles"]), arg=bool(r.get("arg"))) for r in self.roots],
            hasdef={f: self.param[f] == "xdef" for f in self.funs},
            dpath=dict(self.dpath),
            stmts={f: [Rec(s) for s in self.stmts[f]] for f in self.funs},
            reads=dict(self.reads),
            vars=list(self.vars),
            vmax={v: VMAX.get(self.vtype[v], 9) for v in self.vars},
            untracked=set(self.untracked),
            psegs={p: [x for x in p.split("/") if x] for p in self.all_paths()},
        )
        return tlax(r)

    def to_json(self) -> Dict[str, Any]:
        return {"name": self.name, "root": self.root, "funs": self.funs, "stmts": self.stmts,
                "reads": self.reads, "vtype": self.vtype, "dpath": self.dpath,
                "root_path": self.root_path, "param": self.param, "real": self.real,
                "tags": self.tags, "styles": self.styles, "root2": self.root2, "untracked": self.untracked, "root_arg": self.root_arg,
                "defaults": self.defaults}

    @staticmethod
    def from_json(d: Dict[str, Any]) -> "Shape":
        return Shape(d["name"], d["root"], d["stmts"], d["reads"], d["vtype"], d["dpath"],
                     d["root_path"], d.get("real"), d.get("tags"), d.get("root2"), d.get("untracked"), d.get("root_arg", False),
                     d.get("defaults"))


def class_candidates(shape: "Shape") -> List[str]:
    """Functions that may be realised as a class with a run() method: only ever plainly called,
    without arguments, not kept, not referenced, not a root."""
    res = []
    roots = [r["f"] for r in shape.roots]
    for f in shape.funs:
        uses = [s for g in shape.funs for s in shape.stmts[g] if s["k"] in ("call", "ref", "keep", "eval") and s["g"] == f]
        if f in roots or shape.dpath[f] or f in shape.untracked or shape.param[f] != "none":
            continue
        if uses and all(u["k"] == "call" for u in uses):
            res.append(f)
    return res


def shape_data_module(shapes: List[Shape]) -> str:
    body = ",\n  ".join(s.to_tla() for s in shapes)
    return ("---- MODULE ShapeData ----\nEXTENDS TLC\nShapes == <<\n  %s\n>>\n====\n" % body)


# ----------------------------------------------------------------------------------------
# The family
# ----------------------------------------------------------------------------------------


def core_shapes() -> List[Shape]:
    """Hand-picked shapes: one per (construct x position) pair of DESIGN.md 4.2."""
    S: List[Shape] = []

    # s_chain: data-function root -> helper -> kept leaf; variables at each level
    S.append(Shape(
        "chain", "f1",
        {"f1": [call("f2")], "f2": [keep("/d/p3", "f3")], "f3": []},
        reads={"f1": ["v1"], "f2": ["v2"], "f3": ["v3"]},
        vtype={"v1": "int", "v2": "str", "v3": "int"},
        dpath={"f1": "/p1"}, tags=["datafun-root", "helper", "kept-leaf"]))

    # s_args: keeps with const / kw / default / runtime arguments under an eval root
    S.append(Shape(
        "args", "f1",
        {"f1": [keep("/a/c", "f2", "const"), keep("/a/k", "f3", "kw"),
                keep("/a/d", "f4", "default"), keep("/a/r", "f5", "runtime")],
         "f2": [], "f3": [], "f4": [], "f5": []},
        reads={"f1": ["v1"], "f5": ["v2"]},
        vtype={"v1": "int", "v2": "int"}, tags=["const", "kw", "default", "runtime"]))

    # s_rootarg: the root itself takes an argument from its caller; inner keeps of every argument form
    S.append(Shape(
        "rootarg", "f1",
        {"f1": [keep("/ra/c", "f2", "const"), keep("/ra/r", "f3", "runtime"), call("f4"), keep("/ra/d", "f5", "default")],
         "f2": [], "f3": [], "f4": [], "f5": []},
        reads={"f1": ["v1"], "f4": ["v2"]}, vtype={"v1": "int", "v2": "int"},
        dpath={"f4": "/ra/f4"}, root_arg=True, tags=["root-argument", "const", "runtime", "default"]))

    # s_rt3: runtime argument laid out over three lines, followed by a sibling
    S.append(Shape(
        "rt3", "f1",
        {"f1": [keep("/r/a", "f2"), keep("/r/b", "f3", "runtime", lay="3"), keep("/r/c", "f4")],
         "f2": [], "f3": [], "f4": []},
        reads={"f2": ["v1"], "f4": ["v2"]},
        vtype={"v1": "int", "v2": "int"}, tags=["runtime-multiline", "siblings"]))

    # s_rtchain: two plain helpers, then a keep whose run-time argument is computed from their results
    S.append(Shape(
        "rtchain", "f1",
        {"f1": [call("f2"), call("f3"), keep("/c/r", "f4", "runtime"), keep("/c/k", "f5")],
         "f2": [], "f3": [], "f4": [], "f5": []},
        reads={"f2": ["v1"], "f3": ["v2"], "f5": ["v3"]},
        vtype={"v1": "int", "v2": "int", "v3": "int"}, tags=["runtime-after-two-helpers"]))

    # s_rtinline: one plain helper directly before a keep with a run-time argument (the realisation
    # `inline_call_args` writes the helper call inside the argument expression)
    S.append(Shape(
        "rtinline", "f1",
        {"f1": [call("f2"), keep("/ri/r", "f3", "runtime"), keep("/ri/k", "f4")],
         "f2": [call("f5")], "f3": [], "f4": [], "f5": []},
        reads={"f2": ["v1"], "f5": ["v2"], "f4": ["v3"]},
        vtype={"v1": "int", "v2": "int", "v3": "int"}, tags=["runtime-after-one-helper"]))

    # s_shared: one kept node used from two parents (shared sub-node), higher-order reference
    S.append(Shape(
        "shared", "f1",
        {"f1": [call("f2"), call("f3"), ref("f5")], "f2": [call("f4")], "f3": [call("f4")],
         "f4": [], "f5": []},
        reads={"f4": ["v1"], "f5": ["v2"]},
        vtype={"v1": "int", "v2": "int"},
        dpath={"f4": "/s/p4"}, tags=["shared", "ref", "datafun-leaf"]))

    # s_nest: kept inner node containing a kept leaf (nesting depth 3)
    S.append(Shape(
        "nest", "f1",
        {"f1": [keep("/n/p2", "f2")], "f2": [call("f3"), keep("/n/p4", "f4")], "f3": [], "f4": []},
        reads={"f2": ["v1"], "f3": ["v2"], "f4": ["v3"]},
        vtype={"v1": "int", "v2": "int", "v3": "int"}, tags=["kept-inner", "kept-leaf"]))

    return S


def single_shape() -> Shape:
    """one data function reading one variable: the smallest pipeline (conformance scenarios)"""
    return Shape("single", "f1", {"f1": []}, reads={"f1": ["v1"]}, vtype={"v1": "int"}, dpath={"f1": "/s/p1"},
                 tags=["single-kept-node"])


def vtype_shapes(types: Optional[List[str]] = None) -> List[Shape]:
    """One small pipeline per tracked variable type: a data function reading the variable
    directly, and a kept leaf reading it below a helper."""
    res = []
    for t in (types or VTYPES_ALL):
        res.append(Shape(
            "vt_" + t, "f1",
            {"f1": [call("f2")], "f2": [keep("/v/p3", "f3")], "f3": []},
            reads={"f1": ["v1"], "f3": ["v2"]},
            vtype={"v1": t, "v2": t},
            dpath={"f1": "/v/p1"}, tags=["vtype:" + t]))
    return res


def load_shapes() -> List[Shape]:
    """C09: placements of a load x kinds of producer x when the producer ran."""
    S: List[Shape] = []
    # producers are data functions; reader is a kept function; load at the root's top level too
    S.append(Shape(
        "ld_df", "f1",
        {"f1": [call("f2"), call("f3"), load("/l/p3")], "f2": [], "f3": [load("/l/p2")]},
        reads={"f2": ["v1"], "f3": ["v2"]}, vtype={"v1": "int", "v2": "int"},
        dpath={"f2": "/l/p2", "f3": "/l/p3"}, tags=["load-toplevel", "load-in-kept", "producer-datafun"]))
    # producers are keep calls
    S.append(Shape(
        "ld_keep", "f1",
        {"f1": [keep("/k/p2", "f2"), keep("/k/p3", "f3"), load("/k/p3")], "f2": [], "f3": [load("/k/p2")]},
        reads={"f2": ["v1"], "f3": ["v2"]}, vtype={"v1": "int", "v2": "int"},
        tags=["load-toplevel", "load-in-kept", "producer-keepcall"]))
    # load inside a nested plain helper, below a kept node
    S.append(Shape(
        "ld_nested", "f1",
        {"f1": [call("f2"), keep("/n/p3", "f3")], "f2": [], "f3": [call("f4")], "f4": [load("/n/p2")]},
        reads={"f2": ["v1"], "f4": ["v2"]}, vtype={"v1": "int", "v2": "int"},
        dpath={"f2": "/n/p2"}, tags=["load-nested-helper", "producer-datafun"]))
    # read before produce in the same evaluation: must be rejected
    S.append(Shape(
        "ld_before", "f1",
        {"f1": [load("/b/p2"), call("f2")], "f2": []},
        reads={"f2": ["v1"]}, vtype={"v1": "int"},
        dpath={"f2": "/b/p2"}, tags=["load-before-producer"]))
    S.append(Shape(
        "ld_before_nested", "f1",
        {"f1": [call("f3"), keep("/c/p2", "f2")], "f2": [], "f3": [load("/c/p2")]},
        reads={"f2": ["v1"]}, vtype={"v1": "int"}, tags=["load-before-producer", "load-nested-helper"]))
    # producer and reader are separate evaluations (two roots)
    S.append(Shape(
        "ld_earlier", "f1",
        {"f1": [], "f2": [load("/e/p1")]},
        reads={"f1": ["v1"], "f2": ["v2"]}, vtype={"v1": "int", "v2": "int"},
        dpath={"f1": "/e/p1", "f2": "/e/p2"}, root2="f2", tags=["producer-earlier-evaluation", "producer-never"]))
    S.append(Shape(
        "ld_earlier_nested", "f1",
        {"f1": [], "f3": [keep("/g/p5", "f5")], "f5": [call("f4")], "f4": [load("/g/p1")]},
        reads={"f1": ["v1"], "f4": ["v2"]}, vtype={"v1": "int", "v2": "int"},
        dpath={"f1": "/g/p1"}, root2="f3", tags=["producer-earlier-evaluation", "load-nested-helper"]))
    # a kept reader that loads the same path twice in its own body
    S.append(Shape(
        "ld_twice", "f1",
        {"f1": [call("f2"), call("f3")], "f2": [], "f3": [load("/t/p2"), load("/t/p2")]},
        reads={"f2": ["v1"], "f3": ["v2"]}, vtype={"v1": "int", "v2": "int"},
        dpath={"f2": "/t/p2", "f3": "/t/p3"}, tags=["load-same-path-twice", "load-in-kept", "producer-datafun"]))
    # producer keep and reader load both sit in plain helpers (which the class realisation turns into methods)
    S.append(Shape(
        "ld_helpers", "f1",
        {"f1": [call("f2"), call("f3")], "f2": [keep("/h/p", "f4")], "f3": [load("/h/p")], "f4": []},
        reads={"f4": ["v1"], "f3": ["v2"]}, vtype={"v1": "int", "v2": "int"},
        dpath={"f1": "/h/root"}, tags=["producer-in-helper", "load-nested-helper", "producer-keepcall"]))
    # one producer function kept under two paths; the reader loads the second one (after / before it is produced)
    S.append(Shape(
        "ld_dup", "f1",
        {"f1": [keep("/dd/a", "f2"), keep("/dd/b", "f2"), call("f3")], "f2": [], "f3": [load("/dd/b")]},
        reads={"f2": ["v1"], "f3": ["v2"]}, vtype={"v1": "int", "v2": "int"},
        dpath={"f3": "/dd/p3"}, tags=["producer-kept-under-two-paths", "load-in-kept", "producer-keepcall"]))
    S.append(Shape(
        "ld_dup_before", "f1",
        {"f1": [keep("/de/a", "f2"), call("f3"), keep("/de/b", "f2")], "f2": [], "f3": [load("/de/b")]},
        reads={"f2": ["v1"], "f3": ["v2"]}, vtype={"v1": "int", "v2": "int"},
        tags=["producer-kept-under-two-paths", "load-before-producer", "load-nested-helper"]))
    # the producer is kept INSIDE a kept root (root 1); the reader is a separate pipeline (root 2)
    S.append(Shape(
        "ld_inner_producer", "f1",
        {"f1": [call("f2")], "f2": [], "f3": [load("/i/p2")]},
        reads={"f2": ["v1"], "f3": ["v2"]}, vtype={"v1": "int", "v2": "int"},
        dpath={"f2": "/i/p2", "f3": "/i/p3"}, root2="f3", tags=["producer-inside-kept-root", "producer-earlier-evaluation"]))
    return S


def illformed_shapes(tier: str = "quick") -> List[Shape]:
    """C11: overlapping kept paths in every call order and placement, call cycles of length 1..4
    through each edge kind, dds.eval nested at depth 1..3 -- plus well-formed neighbours."""
    import itertools
    S: List[Shape] = []
    side = {"g1": []}     # a well-formed side pipeline that populates the store (root 2)

    def mk(name, root, stmts, tags, dpath=None, real=None, root_path="/zz/root_out"):
        st = dict(stmts)
        st.update(side)
        dp = dict(dpath or {})
        dp["g1"] = "/side/g1"
        S.append(Shape(name, root, st, dpath=dp, root2="g1", tags=tags, real=real, root_path=root_path))

    # --- the path of the outermost dds.keep(path, f) against the paths kept below f (the same functions
    # entered through dds.eval(f) are well formed: the root path plays no part then)
    for (k, (rootp, inner, placement)) in enumerate([("/f", "/f/g", "body"), ("/a/b/c", "/a/b", "nested"),
                                                     ("/m", "/m.bak", "body"), ("/a/b", "/a/b/c/d", "nested")]):
        funs = {"f1": [call("h1")] if placement == "nested" else [keep(inner, "k1")], "k1": []}
        if placement == "nested":
            funs["h1"] = [keep(inner, "k1")]
        mk("ovroot_%d" % k, "f1", funs, ["overlap-with-root-path" if rootp != "/m" else "neighbour", "placement:" + placement],
           root_path=rootp)

    # --- overlapping paths: path sets x orders x placements
    sets = [(["/f", "/f/g"], True), (["/f", "/h", "/f/g"], True), (["/a/b", "/c", "/a"], True),
            (["/a/b/c", "/ab", "/a/b"], True), (["/x", "/f/g/h", "/y", "/f"], True),
            (["/m", "/m.bak", "/m/sub"], True), (["/d/m", "/d/m-old", "/d/m/sub"], True), (["/m", "/m v2", "/m/s/t"], True),
            (["/f", "/fg", "/h"], False), (["/a/b", "/ab/c", "/a/c"], False), (["/f/g", "/f/h", "/g"], False),
            (["/m.bak", "/m-old", "/m/sub"], False)]
    n = 0
    for (paths, bad) in sets:
        perms = list(itertools.permutations(paths))
        if tier == "quick":
            perms = perms[:: max(1, len(perms) // 4)]
        for perm in perms:
            for placement in ("body", "nested", "datafun"):
                n += 1
                funs = {"f1": []}
                dpath = {}
                for (i, p) in enumerate(perm):
                    leaf = "k%d" % (i + 1)
                    funs[leaf] = []
                    if placement == "body":
                        funs["f1"].append(keep(p, leaf))
                    elif placement == "nested":
                        h = "h%d" % (i + 1)
                        funs[h] = [keep(p, leaf)]
                        funs["f1"].append(call(h))
                    else:
                        dpath[leaf] = p
                        funs["f1"].append(call(leaf))
                mk("ov%d" % n, "f1", funs, ["overlap" if bad else "no-overlap", "placement:" + placement,
                                            "paths:" + ",".join(perm)], dpath)
    # --- cycles of length 1..4 through each edge kind
    def edge(kind, g, path):
        if kind == "call":
            return call(g)
        if kind == "ref":
            return ref(g)
        return keep(path, g)
    for length in (1, 2, 3, 4):
        for kind in ("call", "keep", "ref", "method"):
            for entry in ("on-cycle", "below-root"):
                funs = {}
                names = ["c%d" % (i + 1) for i in range(length)]
                for (i, f) in enumerate(names):
                    nxt = names[(i + 1) % length]
                    k = "call" if kind == "method" else kind
                    funs[f] = [edge(k, nxt, "/cy/%s" % nxt)]
                root = names[0]
                if entry == "below-root":
                    funs = dict([("r0", [call(names[0])])] + list(funs.items()))
                    root = "r0"
                real = {"as_class": [x for x in names if x != root]} if kind == "method" else None
                if kind == "method" and not real["as_class"]:
                    continue
                mk("cy_%s_%d_%s" % (kind, length, entry), root, funs, ["cycle", "edge:" + kind, "len:%d" % length, entry], real=real)
    # --- nested eval at depth 1..3
    for depth in (1, 2, 3):
        for via in ("call", "keep"):
            funs = {}
            names = ["e%d" % (i + 1) for i in range(depth)]
            for (i, f) in enumerate(names):
                if i + 1 < depth:
                    funs[f] = [edge(via, names[i + 1], "/ne/%s" % names[i + 1])]
                else:
                    funs[f] = [nested_eval("t1")]
            funs["t1"] = []
            mk("ne_%s_%d" % (via, depth), names[0], funs, ["nested-eval", "via:" + via, "depth:%d" % depth])
    return S


def callarg_shapes() -> List[Shape]:
    """plain (non-kept) calls that pass arguments -- literal, computed, or the caller's own parameter
    handed on -- with kept nodes below them whose value depends on what was passed"""
    S: List[Shape] = []
    S.append(Shape(
        "callargs", "f1",
        {"f1": [call("f2", "const"), call("f3", "runtime"), call("f8", "const"), keep("/ca/k", "f6")],
         "f2": [keep("/ca/a", "f4", "pass"), call("f5", "pass")],
         "f3": [keep("/ca/b", "f4", "pass")],
         "f4": [], "f5": [keep("/ca/c", "f7", "pass")], "f6": [], "f7": [],
         "f8": [keep("/ca/d", "f9", "pass")], "f9": []},
        reads={"f4": ["v1"], "f6": ["v2"]}, vtype={"v1": "int", "v2": "int"},
        defaults=["f8"], tags=["plain-call-arguments", "parameter-handed-on", "explicit-argument-over-default"]))
    # one plain helper that takes an argument, called from two kept functions: each caller's
    # signature must depend on its own call site only
    S.append(Shape(
        "shared_helper", "f1",
        {"f1": [call("f2"), call("f3")], "f2": [call("f4", "const")], "f3": [call("f4", "const")], "f4": []},
        reads={"f2": ["v1"], "f3": ["v2"], "f4": ["v3"]}, vtype={"v1": "int", "v2": "int", "v3": "int"},
        dpath={"f2": "/sh/a", "f3": "/sh/b"}, tags=["helper-with-argument-shared-by-two-kept-functions"]))
    # the root takes the argument from its caller and hands it on, two levels down
    S.append(Shape(
        "callargs_root", "f1",
        {"f1": [keep("/cr/a", "f2", "pass"), call("f3", "pass"), call("f5", "kw")],
         "f2": [], "f3": [keep("/cr/b", "f4", "pass")], "f4": [], "f5": [keep("/cr/c", "f6", "pass")], "f6": []},
        reads={"f2": ["v1"], "f4": ["v2"]}, vtype={"v1": "int", "v2": "int"},
        root_arg=True, tags=["root-argument", "parameter-handed-on", "plain-call-arguments"]))
    # a callee kept with a run-time argument that itself keeps two siblings, the first one with the
    # argument handed on: an edit of the later sibling must not re-execute the earlier one (repair
    # 5a57c38; seeded change R7-C02 undoes it - first found by a random shape of VERIF_SEED=7 only)
    S.append(Shape(
        "rtkeep_siblings", "f1",
        {"f1": [keep("/rk/a", "f2", "runtime")],
         "f2": [keep("/rk/b", "f3", "pass"), keep("/rk/c", "f4"), keep("/rk/d", "f5", "pass")],
         "f3": [], "f4": [], "f5": []},
        reads={"f3": ["v1"], "f4": ["v2"]}, vtype={"v1": "int", "v2": "int"},
        tags=["runtime-kept-callee-with-kept-siblings", "parameter-handed-on"]))
    return S


def tworoot_shapes() -> List[Shape]:
    """two independent pipelines in one program (two roots): what one evaluation leaves behind in
    the process must not leak into the evaluation of the other one"""
    return [Shape(
        "pipes2", "f1",
        {"f1": [keep("/pa/sub", "f2"), call("f3")], "f2": [], "f3": [],
         "g1": [keep("/pb/sub", "g2"), call("g3")], "g2": [], "g3": []},
        reads={"f2": ["v1"], "f3": ["v2"], "g2": ["v3"]},
        vtype={"v1": "int", "v2": "int", "v3": "int"},
        dpath={"g3": "/pb/g3"}, root2="g1", tags=["two-pipelines"])]


def graph_shapes() -> List[Shape]:
    """C18: pipelines whose graph has two relations between one pair of nodes, or two nodes for one function."""
    S: List[Shape] = []
    # a keep with a run-time argument that loads the path of an earlier sibling still in the call-order group
    S.append(Shape(
        "g_rtload", "f1",
        {"f1": [keep("/w/a", "f2"), keep("/w/c", "f3"), keep("/w/b", "f4", "runtime")],
         "f2": [], "f3": [], "f4": [load("/w/a")]},
        reads={"f2": ["v1"], "f3": ["v2"]}, vtype={"v1": "int", "v2": "int"},
        tags=["runtime-keep-loads-sibling"]))
    # the same, the load sitting in a plain helper below the keep
    S.append(Shape(
        "g_rtload_helper", "f1",
        {"f1": [call("f2"), keep("/y/b", "f4", "runtime"), keep("/y/c", "f3")],
         "f2": [], "f3": [], "f4": [call("f5")], "f5": [load("/y/a")]},
        reads={"f2": ["v1"], "f3": ["v2"]}, vtype={"v1": "int", "v2": "int"},
        dpath={"f2": "/y/a"}, tags=["runtime-keep-loads-sibling", "load-nested-helper"]))
    # kept -> plain -> kept (data function) -> load: the load belongs to the lower kept node only
    S.append(Shape(
        "g_kpk", "f1",
        {"f1": [call("f2"), keep("/z/top", "f3")], "f2": [], "f3": [call("f4")], "f4": [call("f5")], "f5": [load("/z/src")]},
        reads={"f2": ["v1"], "f5": ["v2"]}, vtype={"v1": "int", "v2": "int"},
        dpath={"f2": "/z/src", "f5": "/z/leaf"}, tags=["kept-plain-kept-load"]))
    # a shared keep reached before AND after a keep with a run-time argument (the second time through a
    # call that has a run-time argument itself): no edge may point back from the run-time keep
    S.append(Shape(
        "g_back", "f1",
        {"f1": [call("f2"), call("f6", "runtime"), call("f3", "runtime")],
         "f2": [call("f5")], "f3": [call("f5")], "f4": [], "f5": [], "f6": [keep("/gb/b", "f4", "pass")]},
        reads={"f5": ["v1"]}, vtype={"v1": "int"},
        dpath={"f5": "/gb/a"}, tags=["shared-keep-around-runtime-keep"]))
    # a plain call that is given a run-time argument but whose keep below has no argument at all
    S.append(Shape(
        "g_plainarg", "f1",
        {"f1": [call("f2"), call("f3", "runtime")], "f2": [call("f5")], "f3": [keep("/gp/y", "f4")], "f4": [], "f5": []},
        reads={"f5": ["v1"], "f4": ["v2"]}, vtype={"v1": "int", "v2": "int"},
        dpath={"f5": "/gp/a"}, tags=["argless-keep-below-dependent-call"]))
    # one function kept at two paths of one evaluation (same body / different bodies)
    S.append(Shape(
        "g_dup", "f1",
        {"f1": [keep("/u/a", "f2"), keep("/u/b", "f2"), keep("/u/c", "f3")], "f2": [], "f3": []},
        reads={"f2": ["v1"], "f3": ["v2"]}, vtype={"v1": "int", "v2": "int"},
        tags=["one-function-two-paths"]))
    S.append(Shape(
        "g_dup_nested", "f1",
        {"f1": [keep("/q/a", "f2"), keep("/q/n", "f3")], "f2": [], "f3": [keep("/q/b", "f2")]},
        reads={"f2": ["v1"], "f3": ["v2"]}, vtype={"v1": "int", "v2": "int"},
        tags=["one-function-two-paths", "kept-inner"]))
    return S


def boundary_shapes() -> List[Shape]:
    """C14: accepted code calling / referencing functions of a non-accepted module, and the
    mirror image (data functions living in the non-accepted module)."""
    S: List[Shape] = []
    # accepted pipeline using a non-accepted helper at two levels
    S.append(Shape(
        "bd_mixed", "f1",
        {"f1": [call("u1"), call("f2")], "f2": [call("u2"), keep("/m/p3", "f3")], "f3": [ref("u1")], "u1": [], "u2": []},
        reads={"f1": ["v1"], "f3": ["v2"]}, vtype={"v1": "int", "v2": "bool"},
        dpath={"f1": "/m/p1"}, untracked=["u1", "u2"], tags=["ext-call", "ext-ref"]))
    # the root data function lives in the non-accepted module
    S.append(Shape(
        "bd_root", "u1", {"u1": [], "f1": [call("f2")], "f2": []},
        dpath={"u1": "/m/u1", "f1": "/m/f1"}, untracked=["u1"], root2="f1", tags=["ext-root-datafun"]))
    # accepted code calls a data function of the non-accepted module
    S.append(Shape(
        "bd_call_df", "f1", {"f1": [call("f2"), call("u1")], "f2": [], "u1": []},
        reads={"f2": ["v1"]}, vtype={"v1": "int"},
        dpath={"f2": "/m/f2", "u1": "/m/u1"}, untracked=["u1"], tags=["ext-datafun-called"]))
    # accepted code keeps a function of the non-accepted module
    S.append(Shape(
        "bd_keep", "f1", {"f1": [keep("/m/k", "u1")], "u1": []},
        untracked=["u1"], tags=["ext-keep"]))
    return S


def random_shapes(n: int, seed: int, max_funs: int = 8) -> List[Shape]:
    """Random well-formed pipelines (thorough tier): acyclic call graphs over up to `max_funs`
    functions, bodies of up to 3 statements (plain call, higher-order reference, keep with every
    argument form, data functions, loads of paths produced earlier in program order), variables
    of random tracked types.  Deterministic in (n, seed)."""
    import random
    rnd = random.Random(seed * 7919 + 13)
    res: List[Shape] = []
    types = ["int", "str", "bool", "tuple", "list", "dict", "float", "date"]
    attempts = 0
    while len(res) < n and attempts < 50 * n:
        attempts += 1
        k = rnd.randint(3, max_funs)
        funs = ["f%d" % (i + 1) for i in range(k)]
        stmts: Dict[str, List[Dict[str, str]]] = {f: [] for f in funs}
        dpath: Dict[str, str] = {}
        takes_arg: Dict[str, str] = {}      # function -> argument form of its (single) keep site
        used_plain = set()
        npath = [0]

        def newpath() -> str:
            npath[0] += 1
            return "/r%d/p%d" % (len(res), npath[0]) if rnd.random() < 0.7 else "/r%d/d/e/p%d" % (len(res), npath[0])
        for (i, f) in enumerate(funs[:-1]):
            later = funs[i + 1:]
            for _ in range(rnd.randint(0 if i else 1, 3)):
                g = rnd.choice(later)
                kind = rnd.choice(["call", "call", "keep", "keep", "ref"])
                if g in takes_arg:
                    continue                      # argument-taking functions have exactly one site
                if kind == "keep":
                    a = rnd.choice(["none", "none", "const", "kw", "default", "runtime"])
                    if a != "none" and (g in used_plain or g in dpath or any(s["g"] == g for ss in stmts.values() for s in ss)):
                        a = "none"
                    if a != "none":
                        takes_arg[g] = a
                    stmts[f].append(keep(newpath(), g, a, lay=rnd.choice(["1", "1", "2", "3"])))
                else:
                    used_plain.add(g)
                    stmts[f].append(stmt(kind, g))
        for f in funs[1:]:
            if f not in takes_arg and rnd.random() < 0.3:
                dpath[f] = newpath()
        root = funs[0]
        if rnd.random() < 0.4 and root not in takes_arg:
            dpath[root] = newpath()
        # reachable part only
        reach = {root}
        todo = [root]
        while todo:
            x = todo.pop()
            for s_ in stmts[x]:
                if s_["g"] not in reach:
                    reach.add(s_["g"])
                    todo.append(s_["g"])
        funs2 = [f for f in funs if f in reach]
        if len(funs2) < 3:
            continue
        st2 = {f: stmts[f] for f in funs2}
        # loads: of a path produced earlier in program order (depth-first), placed after it
        order: List[str] = []

        def walk(f: str, seen: List[str]) -> None:
            for s_ in st2[f]:
                if s_["k"] in ("call", "ref", "keep"):
                    walk(s_["g"], seen)
                    p = s_["p"] if s_["k"] == "keep" else dpath.get(s_["g"], "")
                    if p:
                        seen.append(p)
        produced: List[str] = []
        walk(root, produced)
        if produced and rnd.random() < 0.5:
            st2[root] = st2[root] + [load(rnd.choice(produced))]
        reads: Dict[str, List[str]] = {}
        vtype: Dict[str, str] = {}
        for f in funs2:
            if rnd.random() < 0.6:
                v = "v%d" % (len(vtype) + 1)
                vtype[v] = rnd.choice(types)
                reads[f] = [v]
                if rnd.random() < 0.2 and len(vtype) > 1:
                    reads[f].append(rnd.choice(sorted(vtype)))
        try:
            sh = Shape("rnd%d_%d" % (seed, len(res)), root, st2, reads=reads, vtype=vtype,
                       dpath={f: p for (f, p) in dpath.items() if f in funs2},
                       root_path="/r%d/root_out" % len(res), tags=["random"])
        except AssertionError:
            continue
        # no kept path may be a prefix of another (by construction: distinct leaves), no duplicates
        ps = sh.kept_paths()
        if len(ps) != len(set(ps)) or not ps:
            continue
        res.append(sh)
    return res


def quick_shapes() -> List[Shape]:
    return core_shapes() + vtype_shapes() + load_shapes()[:3]


def by_name(names: List[str]) -> List[Shape]:
    allS = {s.name: s for s in quick_shapes() + load_shapes()}
    return [allS[n] for n in names]
