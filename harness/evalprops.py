"""
The checks of the properties decided on DdsEval by history generation + replay.
"""
import copy
import json
import os
import time
from typing import Any, Callable, Dict, List, Optional, Tuple

from . import common, evalfam, oracles, shapes as shp
from .common import Report
from .shapes import Shape

ORACLES: Dict[str, Callable[..., List[oracles.Viol]]] = {
    "C01": oracles.c01,
    "C02": oracles.c02,
    "C04": oracles.c04,
}

RULES = {
    "C01": "history = TLC-enumerated complete plan over one shape; non-trivial when the specification "
           "predicts at least one node served from the store (a stale result would be observable); "
           "distinct by (shape, sequence of edits/evaluations, store kind, realisation)",
    "C02": "history as C01; non-trivial when it contains an evaluation after an edit / revert / restart / "
           "style switch for which the specification predicts at least one kept node NOT executed",
    "C04": "history as C01; every evaluation is followed by a second process loading every committed path; "
           "non-trivial when at least one path is loaded that the latest evaluation did not keep or re-keep",
}


def _nontrivial(prop: str, hist: List[Dict[str, Any]]) -> bool:
    ev = [r for r in hist if r["op"] == "eval"]
    if prop in ("C01", "C02"):
        # some evaluation after the first one in which something kept was served
        for r in ev[1:]:
            kept = len(r["req"])
            if kept and len(r["stored"]) < kept:
                return True
        return False
    if prop == "C04":
        return any(len(r["served"]) > 0 for r in ev[1:])
    return True


def variants(prop: str, tier: str) -> List[Dict[str, Any]]:
    """Alias / module import forms change the text of the caller between layouts (the call
    is spelled differently), so Relayout is only enabled (>= 2 layouts) with plain from-imports.
    (store kind of the spec run, store kind on the real side, layouts, import form, fraction)"""
    if prop == "C04":
        v = [dict(spec_store="local", real_store="local", layouts=["one", "split"], imp="from", frac=0.5),
             dict(spec_store="local", real_store="local+lru", layouts=["split"], imp="from_as", frac=0.25)]
        return v
    v = [dict(spec_store="local", real_store="local", layouts=["one", "split"], imp="from", frac=1.0),
         dict(spec_store="local", real_store="local+lru", layouts=["split"], imp="from_as", frac=0.34),
         dict(spec_store="memory", real_store="memory", layouts=["one", "moved"], imp="from", frac=0.34)]
    if prop == "C01":
        v.append(dict(spec_store="noop", real_store="noop", layouts=["split"], imp="module", frac=0.2))
    if tier == "thorough":
        for x in v:
            x["frac"] = 1.0
        v.append(dict(spec_store="local", real_store="local", layouts=["deep"], imp="module_as", frac=1.0))
        v.append(dict(spec_store="memory", real_store="memory+lru", layouts=["split"], imp="module", frac=1.0))
        v.append(dict(spec_store="local", real_store="local", layouts=["split", "deep", "one"], imp="from", frac=1.0))
    return v


def _shapes_for(S: List[Shape], store_kind: str) -> List[Shape]:
    """The noop store documents that dds.load does not work with it: shapes with loads are
    outside its supported subset."""
    if store_kind != "noop":
        return S
    return [s for s in S if not any(st["k"] == "load" for f in s.funs for st in s.stmts[f])]


def run_family(prop: str, tier: str) -> int:
    rep = Report(prop, tier)
    evalfam.import_dds()
    S = shp.quick_shapes()
    plans = evalfam.QUICK_PLANS
    max_ver = 1
    if tier == "thorough":
        plans = plans + [["eval", "edit", "edit", "eval", "revert", "eval"],
                         ["eval", "edit", "eval", "edit", "eval"]]
    oracle = ORACLES[prop]
    # 1. the design: every invariant / action property of the machine, exhaustively
    states = trans = 0
    kinds_seen: Dict[str, int] = {}
    for sk in sorted(set(v["spec_store"] for v in variants(prop, tier))):
        r = evalfam.tlc_design(_shapes_for(S, sk), plans, max_ver, sk, "package", ["one", "split"], name="design_" + sk)
        states += r.distinct
        trans += r.generated
    rep.cov["states"] = states
    rep.cov["transitions"] = trans
    # 2. histories, 3. replay, 4. oracle
    seed = common.seed()
    total = 0
    nontriv = set()
    ref_checked = 0
    t_budget = 75 if tier == "quick" else 1200
    t0 = time.time()
    gens: Dict[Tuple[str, Tuple[str, ...]], List[Dict[str, Any]]] = {}
    for (vi, v) in enumerate(variants(prop, tier)):
        key = (v["spec_store"], tuple(v["layouts"]))
        if key not in gens:
            (_, hs) = evalfam.tlc_generate(_shapes_for(S, v["spec_store"]), plans, max_ver, v["spec_store"], "package", v["layouts"],
                                           name="gen%d_" % vi)
            gens[key] = hs
        hs = gens[key]
        byname = {}
        for s in S:
            s2 = copy.deepcopy(s)
            s2.real["import_form"] = v["imp"]
            byname[s.name] = s2
        items = [(byname[h["shape"]], h["hist"]) for h in hs]
        for h in hs:
            for r_ in h["hist"]:
                k_ = r_["op"] + (":" + r_["kind"] if r_["op"] == "edit" else "")
                kinds_seen[k_] = kinds_seen.get(k_, 0) + 1
        if v["frac"] < 1.0:
            step = max(1, int(round(1.0 / v["frac"])))
            items = items[(seed + vi) % step:: step]
        if vi == 0:
            ref_checked = evalfam.reference_check(items, limit=300 if tier == "quick" else 2000)
        remaining = max(10.0, t_budget - (time.time() - t0))
        res = evalfam.replay_many(items, v["real_store"], loads=(prop == "C04"), budget_s=remaining)
        realisation = "store=%s,layouts=%s,import=%s" % (v["real_store"], "/".join(v["layouts"]), v["imp"])
        for ((shape, hist), obs) in zip(items, res):
            if obs is None:
                continue
            total += 1
            if _nontrivial(prop, hist):
                nontriv.add((shape.name, v["real_store"], v["imp"], json.dumps(
                    [[r["op"], r.get("kind"), r.get("what"), r.get("style")] for r in hist])))
            kw = {"realisation": realisation}
            if prop in ("C02", "C04"):
                kw["store_kind"] = v["real_store"]
            viols = oracle(shape, hist, obs, **kw)
            for (fp, det) in viols:
                rep.violation(fp, det)
            if not viols:
                rep.add_sample(evalfam.sample_of(shape, hist, obs))
    rep.cov["traces_validated_against_impl"] = total
    rep.cov["evaluations"] = total
    rep.cov["distinct_nontrivial"] = len(nontriv)
    rep.cov["rule"] = RULES[prop]
    rep.cov["reference_run_evaluations_agreeing"] = ref_checked
    rep.cov["macro_actions_in_generated_histories"] = kinds_seen
    expected_kinds = ["eval", "revert", "restart"] + ["edit:" + k for k in ("body", "cos", "var", "arg", "unrel", "ext", "layout")]
    rep.cov["actions_never_taken"] = [k for k in expected_kinds if k not in kinds_seen]
    rep.cov["shapes"] = [s.name for s in S]
    rep.cov["plans"] = plans
    rep.cov["exhaustive"] = False
    rep.cov["impl_spec_conformant"] = True
    rep.assumptions += [
        "sha256 injective; CPython inspect/ast deterministic",
        "supported subset of DESIGN.md 4.2; non-accepted helper module _vlog is value-stable",
        "TLC explores the bounded model exhaustively (plans = %d macro-step patterns, MaxVer=%d)" % (len(plans), max_ver)]
    if total == 0 or len(nontriv) < 2:
        rep.finish()
        raise common.MachineryError("vacuity guard: %d histories replayed, %d non-trivial" % (total, len(nontriv)))
    return rep.finish()


def replay_file(prop: str, path: str) -> int:
    """Re-run the single history stored in a replay file."""
    evalfam.import_dds()
    with open(path) as f:
        v = json.load(f)
    det = v["detail"]
    shape = Shape.from_json(det["shape"])
    # the stored history is truncated at the failing evaluation
    hist = det["history"]
    real = det.get("realisation", "store=local")
    sk = dict(x.split("=") for x in real.split(",") if "=" in x).get("store", "local")
    res = evalfam.replay_many([(shape, hist)], sk, loads=(prop == "C04"))
    kw: Dict[str, Any] = {"realisation": real}
    if prop in ("C02", "C04"):
        kw["store_kind"] = sk
    viols = ORACLES[prop](shape, hist, res[0], **kw)
    for (fp, d) in viols:
        print("VIOLATION property=%s replay=%s" % (prop, path))
        print("  cause: %s" % fp)
        print("  expected: %s" % json.dumps(d["expected"]))
        print("  observed: %s" % json.dumps(d["observed"]))
    if not viols:
        print("replay of %s: property held" % path)
    return 1 if viols else 0
