"""
The checks of the properties decided on DdsEval by history generation + replay.
One table entry per property: shapes, plans, variants (store kind / layouts / import form),
stage and failure alphabets, oracle, non-triviality rule.
"""
import copy
import json
import os
import time
from typing import Any, Callable, Dict, List, Optional, Tuple

from . import common, evalfam, oracles, shapes as shp
from .common import Report
from .shapes import Shape

P_EDIT = [
    ["eval", "edit", "eval", "revert", "eval"],
    ["eval", "edit", "eval", "restart", "eval"],
    ["eval", "restart", "eval2", "eval"],
    ["eval2", "edit", "eval2"],
]
P_EDIT_THOROUGH = P_EDIT + [["eval", "edit", "edit", "eval", "revert", "eval"],
                            ["eval", "edit", "eval", "edit", "eval"]]
P_LOAD = [
    ["eval", "edit", "eval", "revert", "eval"],
    ["eval2", "edit", "eval2", "restart", "eval2"],
    ["evalB"],
    ["eval", "evalB", "edit", "evalB", "eval", "evalB"],
    ["eval", "evalB", "edit", "eval", "restart", "evalB", "evalB"],
    ["eval", "edit", "eval", "revert", "eval", "evalB"],
]
P_FAIL = [
    ["fail", "eval", "unfail", "eval", "eval"],
    ["eval", "edit", "fail", "eval", "unfail", "eval"],
    ["fail", "eval2", "unfail", "eval2"],
    ["fail", "eval", "eval", "unfail", "eval"],
    # another pipeline evaluated in the same process after the failure
    ["fail", "eval", "evalB", "unfail", "eval"],
    ["evalB", "fail", "eval", "evalB"],
]
P_STAGES = [
    ["evalS", "eval2", "eval2"],
    ["eval2", "edit", "evalS", "eval2"],
    ["evalS", "evalS", "eval"],
    # something the pipeline depends on changes between the restricted run and the full one
    # (a variable edit keeps the process: the two evaluations are consecutive in one interpreter)
    ["evalS", "edit", "eval2"],
    ["eval2", "evalS", "edit", "eval2"],
]


def _v(spec_store, real_store, layouts, imp, frac):
    return dict(spec_store=spec_store, real_store=real_store, layouts=layouts, imp=imp, frac=frac)


def std_variants(tier: str, noop: bool) -> List[Dict[str, Any]]:
    """Alias / module import forms change the text of the caller between layouts (the call is
    spelled differently), so Relayout is only enabled (>= 2 layouts) with plain from-imports."""
    v = [_v("local", "local", ["one", "split"], "from", 0.7 if tier == "quick" else 1.0),
         _v("local", "local+lru", ["split"], "from_as", 0.25),
         _v("memory", "memory", ["one", "moved"], "from", 0.25)]
    if noop:
        v.append(_v("noop", "noop", ["split"], "module", 0.2))
    # every process of the history is a fresh interpreter with its own PYTHONHASHSEED
    hv = _v("local", "local", ["one"], "from", 0.12)
    hv["pristine"] = {"hashseed": "vary"}
    v.append(hv)
    # helpers realised as classes with a method (instantiated and called in place of the function)
    kv = _v("local", "local", ["split"], "from", 0.25)
    kv["klass"] = True
    v.append(kv)
    kv2 = _v("memory", "memory", ["one"], "from", 0.12)
    kv2["klass"] = "split"       # two methods: the statements sit in a method reached through self
    v.append(kv2)
    # notebook placement: IPython cells in one process, functions redefined in place on every edit
    cv = _v("memory", "memory", ["one"], "from", 0.25)
    cv["cells"] = True
    v.append(cv)
    # dds and the callee modules imported by statements inside the function bodies
    v.append(_v("local", "local", ["split"], "local", 0.12))
    # a plain helper call written inside the argument expression of the following run-time-argument keep
    iv = _v("local", "local", ["one", "split"], "from", 0.25)
    iv["inline"] = True
    v.append(iv)
    # store paths given by module-level variables (str / pathlib.Path) instead of literals
    pv = _v("local", "local", ["split"], "from", 0.25)
    pv["path_vars"] = True
    v.append(pv)
    # tracked variables whose names shadow builtins (max, format, input, ...)
    bv = _v("local", "local+lru", ["one", "split"], "from", 0.2)
    bv["var_names"] = "builtin"
    v.append(bv)
    # tracked variables that carry the name of a function of another module
    fv = _v("local", "local", ["split"], "from", 0.2)
    fv["var_names"] = "funs"
    v.append(fv)
    # script placement: the whole pipeline in one file executed as __main__
    sv = _v("local", "local", ["one"], "from", 0.2)
    sv["script"] = True
    v.append(sv)
    if tier == "thorough":
        for x in v:
            x["frac"] = 1.0
        v += [_v("local", "local", ["deep"], "module_as", 1.0),
              _v("memory", "memory+lru", ["split"], "module", 1.0),
              _v("local", "local", ["split", "deep", "one"], "from", 1.0)]
    return v


def small_variants(tier: str) -> List[Dict[str, Any]]:
    v = [_v("local", "local", ["one"], "from", 1.0),
         _v("local", "local+lru", ["split"], "from_as", 0.5),
         _v("memory", "memory", ["one"], "from", 0.5),
         _v("local", "local", ["split"], "local", 0.25)]
    pv = _v("local", "local", ["one"], "from", 0.25)
    pv["path_vars"] = True
    v.append(pv)
    # plain calls written inside keyword-argument values of a non-accepted helper
    wv = _v("local", "local", ["one"], "from", 0.5)
    wv["kw_wrap"] = True
    v.append(wv)
    # helpers realised as classes with a method
    kv = _v("local", "local", ["split"], "from", 0.25)
    kv["klass"] = "split"
    v.append(kv)
    if tier == "thorough":
        for x in v:
            x["frac"] = 1.0
        v.append(_v("memory", "memory+lru", ["deep"], "module_as", 1.0))
    return v


def c14_variants(tier: str) -> List[Dict[str, Any]]:
    """(layout = package depth, accepted prefix, number of accepted packages, import form)"""
    def acc(prefix: str, n: int) -> List[str]:
        return [prefix] + ["filler_pkg_%d" % i for i in range(n - 1)]
    v = []
    combos = [("one", "vpkg", 1, "from", 1.0), ("split", "vpkg.sub_f1", 1, "from", 0.0),
              ("deep", "vpkg", 2, "from_as", 0.5), ("deep", "vpkg.a.b", 1, "module", 0.5),
              ("deep", "vpkg.a.b.c.d", 1, "from", 1.0), ("deep6", "vpkg.a.b.c.d.e", 5, "module_as", 0.5),
              ("deep6", "vpkg.a", 40, "from", 0.5), ("deep6", "vpkg.a.b.c.d.e", 1, "from", 0.5)]
    for (lay, prefix, n, imp, frac) in combos:
        if frac == 0.0:
            continue
        x = _v("local", "local", [lay], imp, 1.0 if tier == "thorough" else frac)
        x["accept"] = acc(prefix, n)
        v.append(x)
    # accepted one by one: a sub-package first and its parent afterwards, and the reverse
    # accepted functions re-exported by a non-accepted facade module and called through it
    fx = _v("local", "local", ["split"], "facade", 1.0 if tier == "thorough" else 0.5)
    fx["accept"] = ["vpkg"]
    v.append(fx)
    # accept_module(<module object>) and the deprecated alias whitelist_module
    for (form, lay, prefix) in (("object", "deep", "vpkg.a.b"), ("whitelist", "split", "vpkg")):
        x = _v("local", "local", [lay], "from", 1.0 if tier == "thorough" else 0.34)
        x["accept"] = [prefix]
        x["accept_form"] = form
        v.append(x)
    for (lay, seq, frac) in (("split", ["vpkg.sub_f1", "vpkg"], 0.5), ("deep", ["vpkg.a.b.c", "filler_x", "vpkg.a"], 0.5),
                             ("split", ["vpkg", "vpkg.sub_f2"], 0.34)):
        x = _v("local", "local", [lay], "from", 1.0 if tier == "thorough" else frac)
        x["accept"] = seq
        v.append(x)
    return v


def _nt_served(hist) -> bool:
    ev = [r for r in hist if r["op"] == "eval"]
    return any(len(r["req"]) and len(r["stored"]) < len(r["req"]) for r in ev[1:])


FAMILY: Dict[str, Dict[str, Any]] = {
    "C01": dict(
        shapes=lambda tier: shp.quick_shapes() + shp.callarg_shapes() + shp.random_shapes(4 if tier == "quick" else 30, common.seed()), plans=lambda tier: P_EDIT if tier == "quick" else P_EDIT_THOROUGH,
        variants=lambda tier: std_variants(tier, True), oracle=oracles.c01, nontrivial=_nt_served,
        rule="history = TLC-enumerated complete plan over one shape; non-trivial when the specification predicts at "
             "least one node served from the store in a later evaluation (a stale result would be observable); "
             "distinct by (shape, sequence of edits/evaluations, store kind, realisation)"),
    "C02": dict(
        shapes=lambda tier: shp.quick_shapes() + shp.callarg_shapes() + shp.random_shapes(4 if tier == "quick" else 30, common.seed() + 1), plans=lambda tier: P_EDIT if tier == "quick" else P_EDIT_THOROUGH,
        variants=lambda tier: std_variants(tier, False), oracle=oracles.c02, nontrivial=_nt_served, store_kw=True,
        rule="history as C01; non-trivial when it contains an evaluation after an edit / revert / restart / style "
             "switch for which the specification predicts at least one kept node NOT executed"),
    "C04": dict(
        shapes=lambda tier: shp.quick_shapes(), plans=lambda tier: P_EDIT if tier == "quick" else P_EDIT_THOROUGH,
        variants=lambda tier: [_v("local", "local", ["one", "split"], "from", 0.5 if tier == "quick" else 1.0),
                               _v("local", "local+lru", ["split"], "from_as", 0.25 if tier == "quick" else 1.0),
                               # the Databricks store over the in-process fake of dbutils.fs (commit type full)
                               _v("local", "dbfs", ["one"], "from", 0.25 if tier == "quick" else 1.0)],
        oracle=oracles.c04, loads=True, store_kw=True, protocol=True, repo_tests=True, spec_refines_protocol=True,
        nontrivial=lambda hist: any(len(r["served"]) > 0 for r in [x for x in hist if x["op"] == "eval"][1:]),
        rule="history as C01; every evaluation is followed by a second process loading every committed path; "
             "non-trivial when a later evaluation leaves at least one committed path to load"),
    "C09": dict(
        shapes=lambda tier: shp.load_shapes(), plans=lambda tier: P_LOAD,
        variants=small_variants, oracle=oracles.c09,
        nontrivial=lambda hist: any(r["op"] == "eval" and (r["err"] not in ("", []) or len(r["log"]) > 0) for r in hist[1:]),
        rule="history over a shape with dds.load (placement x producer kind x producer timing); non-trivial when a later "
             "evaluation executes a reader or must be rejected"),
    "C10": dict(
        shapes=lambda tier: shp.core_shapes() + shp.load_shapes()[:2] + shp.tworoot_shapes(), plans=lambda tier: P_FAIL,
        variants=small_variants, oracle=oracles.c10, protocol=True,
        # KeyError: the class dds raises internally itself when a table misses an entry
        fail_classes=lambda tier: ["Exception", "KeyboardInterrupt", "KeyError"] + (["SystemExit", "ValueError"] if tier == "thorough" else []),
        nontrivial=lambda hist: any(r["op"] == "eval" and isinstance(r["err"], list) and r["err"][:1] == ["raise"] for r in hist),
        rule="history with one function switched to fail (every function of the shape x exception class); non-trivial "
             "when the failing body is actually reached (the specification predicts the raise)"),
    "C11": dict(
        shapes=lambda tier: shp.illformed_shapes(tier), plans=lambda tier: [["eval"], ["evalB", "eval2"], ["evalB", "eval"]],
        variants=lambda tier: [_v("local", "local", ["one"], "from", 1.0), _v("memory", "memory", ["half"], "from", 0.5 if tier == "quick" else 1.0),
                               # dds and the callee modules imported by statements inside the function bodies
                               _v("local", "local", ["one"], "local", 0.34 if tier == "quick" else 1.0),
                               _v("memory", "memory", ["half"], "local", 0.34 if tier == "quick" else 1.0)],
        oracle=oracles.c11, design_cfg="DdsEval_c11.cfg",
        nontrivial=lambda hist: any(r["op"] == "eval" and r["err"] not in ("", []) for r in hist),
        rule="one evaluation of an ill-formed shape (overlapping kept paths in every order and placement, call cycles of "
             "length 1..4 through calls / keeps / references / methods, nested dds.eval at depth 1..3) on a fresh and on a "
             "populated store, plus well-formed neighbours; non-trivial when the specification rejects the evaluation"),
    "C14": dict(
        shapes=lambda tier: shp.boundary_shapes() + [x for x in shp.core_shapes() if x.name in ("chain", "args", "nest")] + shp.vtype_shapes(["bool"]),
        plans=lambda tier: [["eval", "edit", "eval", "revert", "eval"], ["evalB"], ["eval2", "edit", "eval2"]],
        variants=lambda tier: c14_variants(tier), oracle=oracles.c14,
        nontrivial=lambda hist: any(r["op"] == "edit" for r in hist) or any(r["op"] == "eval" and r["err"] not in ("", []) for r in hist),
        rule="history over a pipeline that crosses the accepted / non-accepted boundary, replayed under (package depth, "
             "accepted prefix depth, number of accepted packages, import form); non-trivial when it edits one side of "
             "the boundary or must be refused"),
    "C15": dict(
        shapes=lambda tier: shp.core_shapes() + shp.load_shapes()[:1], plans=lambda tier: P_STAGES,
        variants=small_variants, oracle=oracles.c15, protocol=True, stages=lambda tier: [1, 2, 3, 4, 5], extra=lambda rep, tier: c15_extra(rep, tier),
        nontrivial=lambda hist: any(r["op"] == "eval" and r.get("stages", 5) < 5 for r in hist),
        rule="history containing a stage-restricted dds.eval (every prefix of the stage order) before / after full "
             "evaluations; non-trivial when it contains a restricted evaluation"),
}


def c15_extra(rep: Report, tier: str) -> None:
    """Stage lists that are not a prefix of the stage order are refused with a DDS error and run
    nothing; every spelling (lower / upper / mixed case, enum members) of a valid prefix is accepted."""
    from . import replay, worker
    import dds
    shape = shp.core_shapes()[0]
    prog = {"body": {f: 0 for f in shape.funs}, "cos": {f: 0 for f in shape.funs},
            "vval": {v: 0 for v in shape.vars}, "arg": [], "unrel": 0, "ext": 0, "layout": "one",
            "fail": {f: "no" for f in shape.funs}}
    root = common.sub_scratch("c15x")
    from . import materialize as mat
    files = mat.files_of(shape, prog)
    PS = "dds.ProcessingStage."
    cases = [
        (["eval"], False), (["analysis", "eval"], False), (["path_commit"], False), (["bogus"], False),
        (["store_inspect", "analysis"], False), ([3], False),
        (["ANALYSIS"], True), (["Analysis", "Store_Inspect"], True), (["analysis", "STORE_INSPECT", "eval"], True),
        (["@ANALYSIS"], True), (["@ANALYSIS", "store_inspect", "@EVAL", "store_commit"], True),
    ]
    steps = [{"op": "eval", "h": i, "style": "eval", "root": shape.root, "module": mat.module_of(shape, "one")[shape.root],
              "root_path": shape.root_path, "kwargs": {"dds_stages": c}} for (i, (c, _)) in enumerate(cases)]
    seg = {"root_dir": root, "mode": "dds", "modules": sorted(set(mat.module_of(shape, "one").values())),
           "store": replay.store_conf("local", root), "steps": steps, "enum_stages": True}
    mat.write_tree(root, files)
    res = worker.run_forked(seg)
    if res.get("fatal"):
        raise common.MachineryError("C15 stage-list probe failed: %s" % (res["fatal"],))
    n = 0
    for ((c, valid), o) in zip(cases, res["steps"]):
        n += 1
        mut = [op for op in o["ops"] if op[0] in ("store", "sync")]
        if valid:
            if o["err"] is not None:
                rep.violation("C15|valid-stage-list-refused|%s" % c, {"stages": c, "observed": o["err"]})
            elif len(c) < 5 and [op for op in o["ops"] if op[0] == "sync"]:
                rep.violation("C15|committed-without-commit-stage|spelling=%s" % c, {"stages": c})
        else:
            if o["err"] is None or not o["err"].get("dds"):
                rep.violation("C15|invalid-stage-list|%s|got=%s" % (c, (o["err"] or {}).get("type")),
                              {"stages": c, "observed": o["err"], "result": o["result"]})
            elif o["log"] or mut:
                rep.violation("C15|invalid-stage-list-ran|%s" % c, {"stages": c, "log": o["log"], "ops": mut})
    rep.cov["stage_list_spellings_probed"] = n


def _shapes_for(S: List[Shape], store_kind: str) -> List[Shape]:
    """The noop store documents that dds.load does not work with it: shapes with loads are
    outside its supported subset."""
    if store_kind != "noop":
        return S
    return [s for s in S if not any(st["k"] == "load" for f in s.funs for st in s.stmts[f])]


def _tm(label: str, t0: float) -> None:
    if os.environ.get("VERIF_TIMING"):
        import sys
        sys.stderr.write("[timing] %-40s %.1fs\n" % (label, time.time() - t0))


def run_family(prop: str, tier: str) -> int:
    T0 = time.time()
    fam = FAMILY[prop]
    rep = Report(prop, tier)
    evalfam.import_dds()
    S = fam["shapes"](tier)
    plans = fam["plans"](tier)
    variants = fam["variants"](tier)
    stages = fam.get("stages", lambda t: [5])(tier)
    fails = fam.get("fail_classes", lambda t: [])(tier)
    max_ver = 1
    oracle = fam["oracle"]
    T0_ = T0
    def vkey(v):
        placement = "cells" if v.get("cells") else ("script" if v.get("script") else "package")
        # the behaviours of the script placement are those of a one-module package (DdsEval.OnDisk)
        return (v["spec_store"], tuple(v["layouts"]), "package" if placement == "script" else placement)

    # the histories of the next variant are generated (TLC processes started, not waited for) while
    # the current one is replayed
    keys: List[Any] = []
    cells_of: Dict[Any, bool] = {}
    for v in variants:
        if vkey(v) not in keys:
            keys.append(vkey(v))
            cells_of[vkey(v)] = bool(v.get("cells"))
    started: Dict[Any, Any] = {}
    gens: Dict[Any, List[Dict[str, Any]]] = {}

    def start(key) -> None:
        vplans = [pl for pl in plans if "restart" not in pl] if cells_of[key] else plans
        started[key] = evalfam.tlc_generate_start(_shapes_for(S, key[0]), vplans, max_ver, key[0], key[2], list(key[1]),
                                                  name="gen%d_" % keys.index(key), stages=stages, fail_classes=fails,
                                                  procs=common.NCPU // 2)

    def histories(key) -> List[Dict[str, Any]]:
        if key not in gens:
            if key not in started:
                start(key)
            nxt = [k for k in keys if k not in started]
            if nxt:
                start(nxt[0])
            gens[key] = evalfam.tlc_generate_finish(started[key])
            _tm("generated %s (%d histories)" % (key, len(gens[key])), T0)
        return gens[key]
    start(keys[0])      # generation of the first histories runs along with the design runs
    # 1. the design: every invariant / action property of the machine, exhaustively
    states = trans = 0
    kinds_seen: Dict[str, int] = {}
    for sk in sorted(set(v["spec_store"] for v in variants)):
        r = evalfam.tlc_design(_shapes_for(S, sk), plans, max_ver, sk, "package", ["one", "split"],
                               name="design_" + sk, stages=stages, fail_classes=fails,
                               cfg=fam.get("design_cfg", "DdsEval_design.cfg"))
        states += r.distinct
        trans += r.generated
    rep.cov["states"] = states
    rep.cov["transitions"] = trans
    _tm("design runs", T0)
    # 2. histories, 3. replay, 4. oracle
    seed = common.seed()
    total = 0
    nontriv = set()
    ref_checked = 0
    t_budget = 70 if tier == "quick" else 900
    t0 = time.time()
    proto_traces: List[Any] = []
    drift = 0

    for (vi, v) in enumerate(variants):
        key = vkey(v)
        hs = histories(key)
        byname = {}
        for s in S:
            s2 = copy.deepcopy(s)
            s2.real["import_form"] = v["imp"]
            if v.get("klass"):
                s2.real["as_class"] = shp.class_candidates(s2)
                if v["klass"] == "split":
                    s2.real["class_split"] = True
            if v.get("script"):
                s2.real["main_script"] = True
            if v.get("var_names"):
                s2.real["var_names"] = v["var_names"]
            if prop != "C01":
                s2.real["plain_refs"] = True
            if v.get("inline"):
                s2.real["inline_call_args"] = True
            if v.get("kw_wrap"):
                s2.real["kw_wrap"] = True
            if v.get("accept_form"):
                s2.real["accept_form"] = v["accept_form"]
            if v.get("path_vars"):
                s2.real["path_vars"] = True
                s2.real["deco"] = "dds_function"      # and the alias of the decorator
            byname[s.name] = s2
        items = [(byname[h["shape"]], h["hist"]) for h in hs]
        if vi == 0:
            for h in hs:
                for r_ in h["hist"]:
                    k_ = r_["op"] + (":" + r_["kind"] if r_["op"] == "edit" else "")
                    kinds_seen[k_] = kinds_seen.get(k_, 0) + 1
        if v["frac"] < 1.0:
            step = max(1, int(round(1.0 / v["frac"])))
            items = items[(seed + vi) % step:: step]
        if vi == 0:
            ref_checked = evalfam.reference_check(items, limit=300 if tier == "quick" else 2000)
        # a budget per variant (a loaded machine must not silently drop the later variants); it only cuts
        # the number of replays, never a verdict
        remaining = 60.0 if tier == "quick" else max(60.0, t_budget - (time.time() - t0))
        res = evalfam.replay_many(items, v["real_store"], loads=bool(fam.get("loads")), budget_s=remaining,
                                  accept=v.get("accept"), pristine=v.get("pristine"),
                                  mode="cells" if v.get("cells") else "dds")
        realisation = "store=%s,layouts=%s,import=%s" % (v["real_store"], "/".join(v["layouts"]), v["imp"])
        if v.get("klass"):
            realisation += ",helpers-as-classes" + ("-two-methods" if v["klass"] == "split" else "")
        if v.get("cells"):
            realisation += ",notebook-cells"
        if v.get("script"):
            realisation += ",__main__-script"
        if v.get("path_vars"):
            realisation += ",paths-given-by-module-variables"
        if v.get("inline"):
            realisation += ",helper-calls-inside-argument-expressions"
        if v.get("var_names"):
            realisation += ",variables-named-like-" + v["var_names"] + "s"
        if v.get("pristine"):
            realisation += ",pristine-hashseed=%s" % v["pristine"].get("hashseed")
        if v.get("accept_form"):
            realisation += ",accept_module(" + v["accept_form"] + ")"
        if v.get("accept"):
            realisation += ",accept=%s+%d" % (v["accept"][0], len(v["accept"]) - 1)
            if len(v["accept"]) > 1 and not v["accept"][1].startswith("filler"):
                realisation = realisation.rsplit(",", 1)[0] + ",accept=" + ">".join(v["accept"])
        _tm("replayed variant %d (%d items)" % (vi, len(items)), T0)
        for ((shape, hist), obs) in zip(items, res):
            if obs is None:
                continue
            total += 1
            if fam["nontrivial"](hist):
                nontriv.add((shape.name, v["real_store"], v["imp"], json.dumps(
                    [[r.get("op"), r.get("kind"), r.get("what"), r.get("style"), r.get("stages"), r.get("f"), r.get("cls")]
                     for r in hist])))
            kw: Dict[str, Any] = {"realisation": realisation}
            if fam.get("store_kw"):
                kw["store_kind"] = v["real_store"]
            viols = oracle(shape, hist, obs, **kw)
            for (fp, det) in viols:
                rep.violation(fp, det)
            if not viols:
                rep.add_sample(evalfam.sample_of(shape, hist, obs))
            if prop == "C02" and not v.get("cells"):
                try:
                    drift += oracles.coarser_than_cone(hist, obs)
                except Exception:
                    pass
            if fam.get("protocol") and not fam.get("loads") and len(proto_traces) < 1500:
                from . import evalproto
                proto_traces.append(evalproto.traces_from_replay(hist, obs, v["real_store"] == "noop",
                                                                 volatile=v["real_store"].startswith("memory")))
    rep.cov["traces_validated_against_impl"] = total
    rep.cov["evaluations"] = total
    rep.cov["distinct_nontrivial"] = len(nontriv)
    rep.cov["rule"] = fam["rule"]
    rep.cov["reference_run_evaluations_agreeing"] = ref_checked
    rep.cov["macro_actions_in_generated_histories"] = kinds_seen
    rep.cov["shapes"] = [s.name for s in S]
    if prop == "C02":
        rep.cov["informational_pairs_with_different_cone_but_equal_signature"] = drift
    rep.cov["plans"] = plans
    rep.cov["exhaustive"] = False
    rep.cov["exhaustive_part"] = "TLC enumerates every history of the listed plans over the listed shapes (MaxVer=%d)" % max_ver
    rep.assumptions += [
        "sha256 injective; CPython inspect/ast deterministic",
        "supported subset of DESIGN.md 4.2; non-accepted helper module _vlog is value-stable",
        "TLC explores the bounded model exhaustively (plans = %d macro-step patterns, MaxVer=%d)" % (len(plans), max_ver)]
    if fam.get("protocol"):
        # code -> spec: the recorded store operations of every replayed evaluation, and of the
        # repository's own test-suite, against the evaluation protocol (spec/EvalProto.tla)
        from . import evalproto
        ptraces = [t for t in proto_traces if t is not None]
        nrepo = 0
        if fam.get("repo_tests"):
            (rt, summary) = evalproto.record_repo_tests()
            nrepo = len(rt)
            ptraces += rt
            rep.cov["repo_tests_recorded"] = summary.strip("= ")
        nspec = 0
        if fam.get("spec_refines_protocol"):
            # spec vs spec: the store operations DdsEval itself performs must be accepted by EvalProto
            for sk in ("local", "memory", "noop"):
                Ss = _shapes_for(shp.core_shapes() + shp.load_shapes()[:3], sk)
                (_, shs) = evalfam.tlc_generate(Ss, P_EDIT[:2] + P_FAIL[:1] + P_STAGES[:1], 1, sk, "package", ["one"],
                                                name="gops_" + sk, stages=[2, 4, 5], fail_classes=["Exception"], log_ops=True)
                for h in shs:
                    ptraces.append(evalproto.traces_from_spec(h["hist"], sk == "noop", sk == "memory"))
                    nspec += 1
        rep.cov["protocol_traces_from_the_spec_itself"] = nspec
        (pr, rejected) = evalproto.validate(ptraces)
        rep.cov["protocol_traces_judged_by_tlc"] = len(ptraces)
        rep.cov["corrupted_protocol_trace_rejected"] = bool(getattr(pr, "selftest", False))
        rep.cov["protocol_traces_from_repo_tests"] = nrepo
        rep.cov["protocol_trace_states"] = pr.distinct
        for rj in rejected:
            if rj["test"] == "spec":
                raise common.MachineryError("DdsEval does not refine EvalProto: %s\n%s" % (rj["clauses"], rj["events"]))
            rep.violation("%s|protocol|%s" % (prop, rj["clauses"][0][1].replace(" ", "_")),
                          {"source": rj["test"], "clauses": rj["clauses"], "events_before": rj["events"]})
    if fam.get("extra"):
        fam["extra"](rep, tier)
    if total == 0 or len(nontriv) < 2:
        rep.finish()
        raise common.MachineryError("vacuity guard: %d histories replayed, %d non-trivial" % (total, len(nontriv)))
    return rep.finish()


def replay_file(prop: str, path: str) -> int:
    """Re-run the single history stored in a replay file."""
    evalfam.import_dds()
    fam = FAMILY[prop]
    with open(path) as f:
        v = json.load(f)
    det = v["detail"]
    shape = Shape.from_json(det["shape"])
    hist = det["history"]     # truncated at the failing evaluation
    real = det.get("realisation", "store=local")
    sk = dict(x.split("=") for x in real.split(",") if "=" in x).get("store", "local")
    res = evalfam.replay_many([(shape, hist)], sk, loads=bool(fam.get("loads")))
    kw: Dict[str, Any] = {"realisation": real}
    if fam.get("store_kw"):
        kw["store_kind"] = sk
    viols = fam["oracle"](shape, hist, res[0], **kw)
    for (fp, d) in viols:
        print("VIOLATION property=%s replay=%s" % (prop, path))
        print("  cause: %s" % fp)
        print("  expected: %s" % json.dumps(d["expected"]))
        print("  observed: %s" % json.dumps(d["observed"]))
    if not viols:
        print("replay of %s: property held" % path)
    return 1 if viols else 0
