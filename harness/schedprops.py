"""
C07 - processes sharing a local store never observe partial or foreign results.

Design level: TLC explores every interleaving of LocalStoreFSMC's race scenarios (unbounded
preemptions) for the "atomic" protocol and rejects the "inplace" one.  Real code: 2 (3)
shimmed processes run under the controlled scheduler of harness/explorer.py, schedules are
enumerated depth-first up to a preemption bound at file-system-call granularity (torn writes
included); expected values come from TLC-generated DdsEval histories; the merged call traces
are validated by TLC against FsTrace.
"""
import json
import multiprocessing
import os
import shutil
from typing import Any, Dict, List, Optional, Tuple

from . import common, crashprops, evalfam, explorer, fsmodel, materialize as mat, replay, shapes as shp, worker
from .common import MachineryError, Report
from .shapes import Shape


def _scenarios(hist: List[Dict[str, Any]]) -> List[str]:
    has_edit = any(r["op"] == "edit" for r in hist)
    return (["rekeep_vs_load", "rekeep_vs_rekeep", "rekeep_rekeep_load"] if has_edit
            else ["same_keep_cold", "same_keep_two_views", "three_keepers_cold"])


def _sched_task(a) -> Dict[str, Any]:
    (idx, shape_json, hist, scen, bound, limit, base) = a
    shape = Shape.from_json(shape_json)
    root = os.path.join(base, "s%d" % idx)
    os.makedirs(root, exist_ok=True)
    out: Dict[str, Any] = {"idx": idx, "scenario": scen, "runs": 0, "bad": [], "fatal": None, "fs_traces": [],
                           "preempted": 0, "max_calls": 0}
    try:
        (setup, victim, vrec) = crashprops._victim_parts(shape, hist, root, "local")
        obs: Dict[int, Dict[str, Any]] = {}
        for seg in setup:
            replay._run_one(seg, root, obs, None)
        store_dir = os.path.join(root, "store")
        snap = os.path.join(root, "snap")
        if os.path.isdir(store_dir):
            shutil.copytree(store_dir, snap, symlinks=True)
        mat.write_tree(root, victim.pop("files"))
        before: Dict[str, Any] = {}
        for r in [x for x in hist if x["op"] == "eval"][:-1]:
            for (p, v) in r["served"]:
                before[p] = v
        after = dict(before)
        for (p, v) in vrec["served"]:
            after[p] = v
        ev = dict(victim["steps"][-1])
        keeper = dict(victim)
        keeper["steps"] = [ev]
        loader = {"root_dir": root, "mode": "dds", "modules": [], "vlog": False, "store": victim["store"], "record": False,
                  "steps": [{"op": "load", "paths": sorted(before), "h": -1}]}
        segs: Dict[str, Dict[str, Any]]
        if scen == "same_keep_cold" or scen == "rekeep_vs_rekeep":
            segs = {"a": keeper, "b": dict(keeper)}
        elif scen == "rekeep_vs_load":
            segs = {"a": keeper, "b": loader}
        elif scen == "three_keepers_cold":
            segs = {"a": keeper, "b": dict(keeper), "c": dict(keeper)}
        elif scen == "rekeep_rekeep_load":
            segs = {"a": keeper, "b": dict(keeper), "c": loader}
        elif scen == "same_keep_two_views":
            k2 = dict(keeper)
            k2["store"] = dict(keeper["store"])
            k2["store"]["data_dir"] = keeper["store"]["data_dir"] + "_view2"
            segs = {"a": keeper, "b": k2}
        else:
            raise ValueError(scen)
        checker = {"root_dir": root, "mode": "dds", "modules": victim["modules"], "store": victim["store"],
                   "steps": [dict(ev), {"op": "load", "paths": sorted(after), "h": -1}]}

        def run(prefix: List[str]) -> Dict[str, Any]:
            shutil.rmtree(store_dir, ignore_errors=True)
            if os.path.isdir(snap):
                shutil.copytree(snap, store_dir, symlinks=True)
            init = fsmodel.snapshot(store_dir, root)
            r = explorer.run_schedule(segs, [store_dir], prefix)
            r["init"] = init
            r["final"] = fsmodel.snapshot(store_dir, root)
            r["check"] = worker.run_forked(checker)
            return r

        def judge(prefix: List[str], r: Dict[str, Any]) -> None:
            out["runs"] += 1
            npre = explorer.preemptions(r["choices"], r["enabled"])
            out["preempted"] += 1 if npre > 0 else 0
            out["max_calls"] = max(out["max_calls"], len(r["choices"]))
            bad = ""
            det: Dict[str, Any] = {}
            for (t, res) in sorted(r["results"].items()):
                if res is None or res.get("fatal"):
                    bad = "process-fails|%s" % (((res or {}).get("fatal") or {}).get("exc", {}).get("type"))
                    det = {"proc": t, "result": res}
                    break
                for st in res["steps"]:
                    if st["op"] == "eval":
                        if st.get("err") is not None:
                            bad = "keep-raises|%s" % st["err"]["type"]
                        elif st.get("result") != vrec["result"]:
                            bad = "keep-returns-%s" % ("None" if st.get("result") is None else "wrong-value")
                    elif st["op"] == "load":
                        for (p, lv) in sorted(st["loads"].items()):
                            if "err" in lv:
                                bad = "load-raises|%s" % lv["err"]["type"]
                            elif lv["value"] != before.get(p) and lv["value"] != after.get(p):
                                bad = "load-returns-%s" % ("None" if lv["value"] is None else "wrong-value")
                            if bad:
                                break
                    if bad:
                        det = {"proc": t, "step": {k: st.get(k) for k in ("op", "result", "err", "loads")}}
                        break
                if bad:
                    break
            if not bad:
                ck = r["check"]
                if ck.get("fatal"):
                    bad = "final-check-died"
                else:
                    (e, ld) = ck["steps"]
                    if e.get("err") is not None or e.get("result") != vrec["result"]:
                        bad = "final-keep-wrong|%s" % ((e.get("err") or {}).get("type"))
                    for (p, lv) in sorted(ld["loads"].items()):
                        if "err" in lv or lv["value"] != after.get(p):
                            bad = bad or "final-load-wrong|%s" % (lv.get("err", {}).get("type") if "err" in lv else "value")
                    det = {"final_check": ck["steps"]} if bad else det
            if bad:
                # the racing pair of calls: last call of each process before the failure
                last = {}
                for m in r["merged"]:
                    last[m["proc"]] = "%s(%s)" % (m["op"], crashprops.file_class(m["args"][-1] if m["op"] in ("symlink", "rename", "replace") else m["args"][0], root))
                out["bad"].append({"what": bad, "schedule": r["choices"], "preemptions": npre, "detail": det,
                                   "calls": [[m["proc"], m["op"], [x.replace(root, "") if isinstance(x, str) else x for x in m["args"]], m["ok"], m["res"] if not isinstance(m["res"], str) else m["res"].replace(root, "")] for m in r["merged"]][-40:]})
            if out["runs"] % 37 == 1:
                strip = lambda x: x.replace(root, "") if isinstance(x, str) else x
                out["fs_traces"].append({"init": r["init"], "final": r["final"],
                                         "events": [{"op": m["op"], "args": [strip(x) for x in m["args"]], "ok": m["ok"], "res": strip(m["res"])}
                                                    for m in r["merged"] if m["ok"] is not None]})

        explorer.explore(run, bound, limit, judge)
    except BaseException:
        import traceback
        out["fatal"] = traceback.format_exc()[-1500:]
    finally:
        shutil.rmtree(root, ignore_errors=True)
    return out


def run_c07(tier: str) -> int:
    rep = Report("C07", tier)
    evalfam.import_dds()
    fsmodel.design_checks(rep, "C07", tier)
    S = [s for s in shp.core_shapes() if s.name in ("chain", "nest")]
    (_, hs) = evalfam.tlc_generate(S, [["eval"], ["eval", "edit", "eval"]], 1, "local", "package", ["one"], name="g07_")
    byname = {s.name: s for s in S}
    items = []
    for h in hs:
        ed = [r for r in h["hist"] if r["op"] == "edit"]
        if ed and not (ed[-1]["kind"] in ("var", "body")):
            continue
        items.append((byname[h["shape"]], h["hist"]))
    if tier == "quick":
        first = [x for x in items if len(x[1]) == 1]
        re = [x for x in items if len(x[1]) > 1]
        items = first[:2] + re[:: max(1, len(re) // 3)][:3]
    bound = 1 if tier == "quick" else 2
    limit = 260 if tier == "quick" else 6000
    base = common.sub_scratch("sched")
    tasks = []
    seen3 = set()
    for (s, h) in items:
        for scen in _scenarios(h):
            three = scen in ("three_keepers_cold", "rekeep_rekeep_load")
            if three and tier == "quick":
                # three processes: one history per scenario in the quick tier
                if scen in seen3:
                    continue
                seen3.add(scen)
            tasks.append((len(tasks), s.to_json(), h, scen, 1 if three else bound, (limit // 2) if three else limit, base))
    with multiprocessing.get_context("fork").Pool(common.NCPU) as pool:
        outs = pool.map(_sched_task, tasks, chunksize=1)
    runs = pre = 0
    traces = []
    distinct = set()
    for (t, out) in zip(tasks, outs):
        if out["fatal"]:
            raise MachineryError("schedule explorer failed on %s/%s: %s" % (t[1]["name"], t[3], out["fatal"]))
        runs += out["runs"]
        pre += out["preempted"]
        traces += out["fs_traces"]
        distinct.add((t[1]["name"], t[3]))
        for b in out["bad"]:
            rep.violation("C07|%s|%s" % (b["what"], t[3]),
                          {"shape": t[1], "history": t[2], "scenario": t[3], "schedule": b["schedule"],
                           "preemptions": b["preemptions"], "detail": b["detail"], "last_calls": b["calls"]})
        rep.add_sample({"shape": t[1]["name"], "scenario": t[3], "schedules_run": out["runs"],
                        "with_preemption": out["preempted"], "max_calls_per_schedule": out["max_calls"],
                        "all_correct": not out["bad"]})
    ntr = fsmodel.validate_fs_traces(rep, traces, "fstrace07")
    rep.cov["traces_validated_against_impl"] = runs + ntr
    rep.cov["schedules_executed"] = runs
    rep.cov["schedules_with_preemption"] = pre
    rep.cov["fs_traces_validated_by_tlc"] = ntr
    rep.cov["preemption_bound"] = bound
    rep.cov["evaluations"] = runs
    rep.cov["distinct_nontrivial"] = pre
    rep.cov["rule"] = ("one execution = one schedule of two (scenarios three_keepers_cold, rekeep_rekeep_load: three) shimmed processes at file-system-call granularity (each write is two "
                       "calls); schedules are enumerated depth-first up to the preemption bound (budget per scenario); "
                       "non-trivial = schedules with at least one preemption (they are all distinct)")
    rep.cov["exhaustive"] = False
    rep.cov["exhaustive_part"] = "design level only: TLC explores every interleaving of the LocalStoreFSMC race scenarios"
    rep.assumptions += ["same-host POSIX semantics (rename atomic, symlink fails on an existing name)",
                        "Python-level interposition sees every file-system effect of the store and codecs"]
    if pre < 10:
        rep.finish()
        raise MachineryError("vacuity guard: %d schedules with a preemption" % pre)
    return rep.finish()


def replay_file(prop: str, path: str) -> int:
    """Re-run the schedule stored in a replay file (and its neighbourhood)."""
    evalfam.import_dds()
    with open(path) as f:
        v = json.load(f)
    d = v["detail"]
    print("cause: %s" % v["fingerprint"])
    out = _sched_task((0, d["shape"], d["history"], d["scenario"], max(1, d.get("preemptions", 1)), 400, common.sub_scratch("replay07")))
    if out["fatal"]:
        print(out["fatal"])
        return 2
    for b in out["bad"][:3]:
        print("VIOLATION property=%s replay=%s" % (prop, path))
        print("  %s under schedule %s" % (b["what"], "".join(b["schedule"])))
        for c in b["calls"][-8:]:
            print("    %s" % (c,))
    if not out["bad"]:
        print("%d schedules of this scenario: property held" % out["runs"])
    return 1 if out["bad"] else 0
