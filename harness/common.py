"""
Shared infrastructure of the verification harness: paths, scratch space, TLC runner,
evidence writer, known-findings matching, violation reporting.

Exit codes of a check:  0 property held on everything explored (known findings are printed)
                        1 VIOLATION (a real execution of the code contradicts the property)
                        2 machinery failure (TLC rejected the unchanged spec, vacuity guard, tool missing)
"""
import atexit
import json
import os
import re
import shutil
import subprocess
import sys
import tempfile
import time
from typing import Any, Dict, List, Optional

VERIF = os.path.dirname(os.path.dirname(os.path.abspath(__file__)))
REPO = os.environ.get("VERIF_REPO", "/repo")
PY = "/venv/bin/python"
SPEC_DIR = os.path.join(VERIF, "spec")
EVIDENCE_DIR = os.path.join(VERIF, "evidence")
REPLAY_DIR = os.path.join(VERIF, "replays")
FINDINGS_FILE = os.path.join(VERIF, "known_findings.json")
TLA_CP = "/opt/veriftools/tla/tla2tools.jar:/opt/veriftools/tla/CommunityModules-deps.jar"
NCPU = os.cpu_count() or 4


def seed() -> int:
    try:
        return int(os.environ.get("VERIF_SEED", "0"))
    except ValueError:
        return 0


_scratch: Optional[str] = None


def scratch() -> str:
    """Private scratch directory (removed at exit). Also used as TMPDIR of the workers so that
    a stray default store (/tmp/dds) can never leak between runs."""
    global _scratch
    if _scratch is None:
        base = os.environ.get("VERIF_SCRATCH_BASE") or tempfile.gettempdir()
        _scratch = tempfile.mkdtemp(prefix="verif-", dir=base)
        atexit.register(_cleanup)
    return _scratch


def _cleanup() -> None:
    global _scratch
    # only the process that created it removes it (forked children must not)
    if _scratch and os.path.isdir(_scratch) and _owner_pid == os.getpid():
        shutil.rmtree(_scratch, ignore_errors=True)
    _scratch = None


_owner_pid = os.getpid()


def sub_scratch(name: str) -> str:
    p = os.path.join(scratch(), name)
    os.makedirs(p, exist_ok=True)
    return p


class MachineryError(Exception):
    pass


# ----------------------------------------------------------------------------------------
# TLC
# ----------------------------------------------------------------------------------------


class TLCResult(object):
    def __init__(self, out: str, rc: int, wall: float, cmd: List[str]):
        self.out = out
        self.rc = rc
        self.wall = wall
        self.cmd = cmd
        self.generated = 0
        self.distinct = 0
        self.depth = 0
        m = None
        for m in re.finditer(
            r"(\d+) states generated, (\d+) distinct states found, (\d+) states left on queue", out
        ):
            pass
        if m:
            self.generated = int(m.group(1))
            self.distinct = int(m.group(2))
        m = re.search(r"The depth of the complete state graph search is (\d+)", out)
        if m:
            self.depth = int(m.group(1))
        self.no_error = "Model checking completed. No error has been found." in out
        self.violated: Optional[str] = None
        m = re.search(r"Error: Invariant (\S+) is violated", out)
        if m:
            self.violated = m.group(1)
        m2 = re.search(r"Error: Action property (\S+) is violated", out)
        if m2:
            self.violated = m2.group(1)
        if "Error: Temporal properties were violated" in out:
            self.violated = self.violated or "temporal"
        self.deadlock = "Error: Deadlock reached" in out
        self.finished = self.no_error or self.violated is not None or self.deadlock
        self.sim_done = "Progress" in out or "states checked" in out

    def printed(self, tag: str) -> List[Any]:
        """JSON payloads printed by the spec with PrintT(<<tag, ToJson(x)>>)."""
        res = []
        prefix = '<<"%s", "' % tag
        for line in self.out.split("\n"):
            if line.startswith(prefix) and line.rstrip().endswith('">>'):
                body = line.rstrip()[len(prefix):-3]
                res.append(json.loads(_tla_unescape(body)))
        return res

    def coverage_never_taken(self) -> List[str]:
        """Actions with zero count in a -coverage report."""
        res = []
        for m in re.finditer(r"^<(\w+) line [^>]*>: 0:0", self.out, re.M):
            res.append(m.group(1))
        return res

    def tail(self, n: int = 60) -> str:
        return "\n".join(self.out.split("\n")[-n:])


def _tla_unescape(s: str) -> str:
    out = []
    i = 0
    while i < len(s):
        c = s[i]
        if c == "\\" and i + 1 < len(s):
            n = s[i + 1]
            if n == "n":
                out.append("\n")
            elif n == "t":
                out.append("\t")
            else:
                out.append(n)
            i += 2
        else:
            out.append(c)
            i += 1
    return "".join(out)


def stage_spec(files: Dict[str, str], name: str = "spec") -> str:
    """Copy /verif/spec into a scratch directory, add generated files, return the directory."""
    d = os.path.join(scratch(), name)
    if os.path.isdir(d):
        shutil.rmtree(d)
    shutil.copytree(SPEC_DIR, d)
    for (fn, content) in files.items():
        with open(os.path.join(d, fn), "w") as f:
            f.write(content)
    return d


def run_tlc(
    spec_dir: str,
    module: str,
    cfg: str,
    workers: int = 0,
    timeout: int = 900,
    extra: Optional[List[str]] = None,
    env: Optional[Dict[str, str]] = None,
    java_opts: Optional[List[str]] = None,
    heap: str = "4g",
) -> TLCResult:
    meta = tempfile.mkdtemp(prefix="meta-", dir=scratch())
    cmd = (
        ["java", "-XX:+UseParallelGC", "-Xmx" + heap]
        + (java_opts or [])
        + ["-cp", TLA_CP, "tlc2.TLC", "-workers", str(workers or NCPU), "-metadir", meta,
           "-noGenerateSpecTE", "-config", cfg]
        + (extra or [])
        + [module]
    )
    e = dict(os.environ)
    e.pop("JAVA_TOOL_OPTIONS", None)
    if env:
        e.update(env)
    t0 = time.time()
    try:
        p = subprocess.run(cmd, cwd=spec_dir, stdout=subprocess.PIPE, stderr=subprocess.STDOUT,
                           timeout=timeout, env=e)
        out = p.stdout.decode("utf-8", "replace")
        rc = p.returncode
    except subprocess.TimeoutExpired as ex:
        out = (ex.stdout or b"").decode("utf-8", "replace") + "\nTIMEOUT"
        rc = -9
    finally:
        shutil.rmtree(meta, ignore_errors=True)
    return TLCResult(out, rc, time.time() - t0, cmd)


class TLCHandle(object):
    """a TLC run in flight (start_tlc); finish() waits for it and returns the TLCResult"""

    def __init__(self, proc, outfile, meta, cmd, t0, timeout):
        (self.proc, self.outfile, self.meta, self.cmd, self.t0, self.timeout) = (proc, outfile, meta, cmd, t0, timeout)

    def finish(self) -> TLCResult:
        try:
            try:
                rc = self.proc.wait(timeout=max(1.0, self.timeout - (time.time() - self.t0)))
                timed_out = False
            except subprocess.TimeoutExpired:
                self.proc.kill()
                self.proc.wait()
                (rc, timed_out) = (-9, True)
            with open(self.outfile, "rb") as f:
                out = f.read().decode("utf-8", "replace") + ("\nTIMEOUT" if timed_out else "")
        finally:
            shutil.rmtree(self.meta, ignore_errors=True)
            try:
                os.remove(self.outfile)
            except OSError:
                pass
        return TLCResult(out, rc, time.time() - self.t0, self.cmd)


def start_tlc(spec_dir: str, module: str, cfg: str, workers: int = 0, timeout: int = 900,
              extra: Optional[List[str]] = None, heap: str = "4g") -> TLCHandle:
    """run_tlc without waiting: the output goes to a file, no thread and no fork of this process is involved"""
    meta = tempfile.mkdtemp(prefix="meta-", dir=scratch())
    cmd = (["java", "-XX:+UseParallelGC", "-Xmx" + heap, "-cp", TLA_CP, "tlc2.TLC", "-workers", str(workers or NCPU),
            "-metadir", meta, "-noGenerateSpecTE", "-config", cfg] + (extra or []) + [module])
    e = dict(os.environ)
    e.pop("JAVA_TOOL_OPTIONS", None)
    (fd, outfile) = tempfile.mkstemp(prefix="tlcout-", dir=scratch())
    proc = subprocess.Popen(cmd, cwd=spec_dir, stdout=fd, stderr=subprocess.STDOUT, env=e)
    os.close(fd)
    return TLCHandle(proc, outfile, meta, cmd, time.time(), timeout)


def tlc_must_pass(r: TLCResult, what: str) -> None:
    if not r.no_error:
        errs = [l for l in r.out.split("\n") if l.startswith("Error:") or l.startswith("State ") or "line " in l and "col " in l and l.startswith("<")]
        raise MachineryError("TLC did not accept %s (rc=%s):\n%s\n...\n%s" % (what, r.rc, "\n".join(errs[:40]), r.tail(25)))


# ----------------------------------------------------------------------------------------
# TLA+ value emission (Python -> TLA+ text)
# ----------------------------------------------------------------------------------------


def tla(v: Any) -> str:
    """Render a Python value as a TLA+ expression. dicts become functions built with :> and @@
    (keys may be strings or tuples), lists/tuples become sequences, sets become sets."""
    if isinstance(v, bool):
        return "TRUE" if v else "FALSE"
    if isinstance(v, int):
        return str(v)
    if isinstance(v, str):
        return '"' + v.replace("\\", "\\\\").replace('"', '\\"') + '"'
    if isinstance(v, (list, tuple)):
        return "<<" + ", ".join(tla(x) for x in v) + ">>"
    if isinstance(v, (set, frozenset)):
        return "{" + ", ".join(sorted(tla(x) for x in v)) + "}"
    if isinstance(v, dict):
        if not v:
            return "<<>>"
        return "(" + " @@ ".join("%s :> %s" % (tla(k), tla(x)) for (k, x) in v.items()) + ")"
    raise TypeError("cannot render %r as TLA+" % (v,))


class Rec(dict):
    """A dict rendered as a TLA+ record [a |-> ..] (keys are identifiers)."""


def tla_rec(v: Dict[str, Any]) -> str:
    return "[" + ", ".join("%s |-> %s" % (k, tlax(x)) for (k, x) in v.items()) + "]"


def tlax(v: Any) -> str:
    if isinstance(v, Rec):
        return tla_rec(v)
    if isinstance(v, (list, tuple)):
        return "<<" + ", ".join(tlax(x) for x in v) + ">>"
    if isinstance(v, (set, frozenset)):
        return "{" + ", ".join(sorted(tlax(x) for x in v)) + "}"
    if isinstance(v, dict):
        if not v:
            return "<<>>"
        return "(" + " @@ ".join("%s :> %s" % (tlax(k), tlax(x)) for (k, x) in v.items()) + ")"
    return tla(v)


# ----------------------------------------------------------------------------------------
# Findings, violations, evidence
# ----------------------------------------------------------------------------------------


def load_findings() -> Dict[str, Any]:
    if not os.path.exists(FINDINGS_FILE):
        return {"findings": [], "fixed": []}
    with open(FINDINGS_FILE) as f:
        return json.load(f)


class Report(object):
    """Collects what a check saw, prints the verdict lines, writes the evidence file."""

    def __init__(self, prop: str, tier: str, level: str = "model_checking"):
        self.prop = prop
        self.tier = tier
        self.level = level
        self.t0 = time.time()
        self.cov: Dict[str, Any] = {}
        self.assumptions: List[str] = []
        self.violations: List[Dict[str, Any]] = []   # unknown ones
        self.known_hits: Dict[str, Dict[str, Any]] = {}  # fingerprint -> finding + count
        self.samples: List[Any] = []
        self.notes: List[str] = []
        f = load_findings()
        self._findings = [x for x in f.get("findings", []) if x.get("property") == prop]

    # -- violations -----------------------------------------------------------------
    def violation(self, fingerprint: str, detail: Dict[str, Any]) -> None:
        """Record a violating real execution. `fingerprint` names the abstract cause."""
        for kf in self._findings:
            if _fp_match(kf["fingerprint"], fingerprint):
                ent = self.known_hits.setdefault(kf["fingerprint"], {"finding": kf, "count": 0, "example": detail})
                ent["count"] += 1
                return
        self.violations.append({"fingerprint": fingerprint, "detail": detail})

    def add_sample(self, s: Any, limit: int = 3) -> None:
        if len(self.samples) < limit:
            self.samples.append(s)

    # -- finish ---------------------------------------------------------------------
    def finish(self) -> int:
        os.makedirs(EVIDENCE_DIR, exist_ok=True)
        rc = 0
        for (fp, ent) in sorted(self.known_hits.items()):
            print("KNOWN-FINDING: property=%s %s (%d occurrence(s); fingerprint %s)" % (
                self.prop, ent["finding"].get("what", ""), ent["count"], fp))
        if self.violations:
            rc = 1
            os.makedirs(os.path.join(REPLAY_DIR, self.prop), exist_ok=True)
            seen = set()
            n = 0
            for v in self.violations:
                if v["fingerprint"] in seen:
                    continue
                seen.add(v["fingerprint"])
                n += 1
                path = os.path.join(REPLAY_DIR, self.prop, "%s-%d.json" % (self.tier, n))
                with open(path, "w") as f:
                    json.dump(v, f, indent=1, default=str)
                print("VIOLATION property=%s replay=%s" % (self.prop, path))
                print("  cause: %s" % v["fingerprint"])
                if n >= 10:
                    break
        cov = dict(self.cov)
        cov.setdefault("samples", self.samples or ["(none)"])
        ev = {
            "property_id": self.prop,
            "tier": self.tier,
            "seed": seed(),
            "level": self.level,
            "coverage": cov,
            "assumptions": self.assumptions,
            "wall_s": round(time.time() - self.t0, 2),
            "violations": len(self.violations),
            "known_findings_hit": {fp: e["count"] for (fp, e) in self.known_hits.items()},
            "distinct_violation_causes": sorted(set(v["fingerprint"] for v in self.violations)),
            "notes": self.notes,
            "repo": REPO,
        }
        with open(os.path.join(EVIDENCE_DIR, self.prop + ".json"), "w") as f:
            json.dump(ev, f, indent=1, default=str)
        print("%s %s: %s in %.1fs (%s)" % (
            self.prop, self.tier, "VIOLATED" if rc else "ok", time.time() - self.t0,
            ", ".join("%s=%s" % (k, v) for (k, v) in cov.items()
                      if isinstance(v, (int, bool)))))
        return rc


def _fp_match(pattern: str, fp: str) -> bool:
    """A known-finding fingerprint matches exactly, or as a prefix when it ends with '*'."""
    if pattern.endswith("*"):
        return fp.startswith(pattern[:-1])
    return pattern == fp


def die_machinery(prop: str, tier: str, msg: str) -> int:
    sys.stdout.write("MACHINERY-FAILURE property=%s tier=%s\n%s\n" % (prop, tier, msg))
    return 2


class StepTimeout(BaseException):
    """raised inside a worker when one operation of the library under test does not return in time"""


class Watchdog(object):
    """`with Watchdog(30):` - SIGALRM after the given seconds raises StepTimeout in the main thread of
    the (worker) process.  An operation of the code under test that loops for ever thus becomes an
    observation (exception StepTimeout) the oracles judge, instead of a hung check."""

    def __init__(self, seconds: int):
        self.seconds = seconds
        self.old = None

    @staticmethod
    def _trips_dir() -> str:
        d = os.path.join(scratch(), "watchdog_trips")
        os.makedirs(d, exist_ok=True)
        return d

    def __enter__(self):
        import signal
        # circuit breaker: after three operations of this run did not return, the remaining ones are not
        # waited for any more (the run already has its violations; it must end)
        try:
            if len(os.listdir(self._trips_dir())) >= 3:
                raise StepTimeout("not attempted: three earlier operations of this run did not return")
        except OSError:
            pass

        def handler(signum, frame):
            try:
                with open(os.path.join(self._trips_dir(), "%d-%f" % (os.getpid(), time.time())), "w"):
                    pass
            except OSError:
                pass
            raise StepTimeout("no answer within %d s" % self.seconds)
        try:
            self.old = signal.signal(signal.SIGALRM, handler)
            signal.alarm(self.seconds)
        except ValueError:      # not in the main thread
            self.old = None
        return self

    def __exit__(self, *a):
        import signal
        try:
            signal.alarm(0)
            if self.old is not None:
                signal.signal(signal.SIGALRM, self.old)
        except ValueError:
            pass
        return False


_armed = [None]


def arm(seconds: int) -> None:
    """(Re)starts the watchdog of this worker process for the next operation of the code under test:
    loops call it at the top of every iteration and disarm() after the loop (see Watchdog)."""
    if _armed[0] is not None:
        _armed[0].__exit__()
    try:
        w = Watchdog(seconds)
        w.__enter__()
        _armed[0] = w
    except StepTimeout:
        _armed[0] = None
        raise


def disarm() -> None:
    if _armed[0] is not None:
        _armed[0].__exit__()
        _armed[0] = None


def cov_save() -> None:
    """Development aid (tools/coverage_run.sh): a forked child that leaves through os._exit saves its
    coverage data first.  No-op unless the run was started under coverage."""
    if not os.environ.get("COVERAGE_PROCESS_START"):
        return
    try:
        import coverage
        cov = coverage.Coverage.current()
        if cov is not None:
            cov.stop()
            cov.save()
    except Exception:
        pass
