"""Entry point of every registered check: ./check Cxx [--tier quick|thorough] [--replay file]."""
import argparse
import importlib
import os
import sys
import traceback

from . import common


def main() -> int:
    ap = argparse.ArgumentParser()
    ap.add_argument("prop")
    ap.add_argument("--tier", default=os.environ.get("VERIF_TIER", "quick"), choices=["quick", "thorough"])
    ap.add_argument("--replay", default=None)
    a = ap.parse_args()
    prop = a.prop.upper()
    try:
        mod = importlib.import_module("harness.props." + prop.lower())
    except ImportError:
        traceback.print_exc()
        return common.die_machinery(prop, a.tier, "no check module for " + prop)
    try:
        if a.replay:
            return int(mod.replay_file(a.replay))
        return int(mod.run(a.tier))
    except common.MachineryError as e:
        return common.die_machinery(prop, a.tier, str(e))
    except Exception:
        return common.die_machinery(prop, a.tier, traceback.format_exc())


if __name__ == "__main__":
    sys.stdout.reconfigure(line_buffering=True)
    sys.exit(main())
