"""
Driver shared by the properties decided on the DdsEval specification (C01, C02, C03, C04,
C09, C10, C14, C15, C18): TLC design run, TLC history generation, parallel replay on the
real code, dds-free reference run.
"""
import multiprocessing
import os
import sys
import time
from typing import Any, Callable, Dict, Iterable, List, Optional, Tuple

from . import common, replay, runconf, shapes as shp
from .common import MachineryError, REPO
from .shapes import Shape

QUICK_PLANS = [
    ["eval", "edit", "eval", "revert", "eval"],
    ["eval", "edit", "eval", "restart", "eval"],
    ["eval", "restart", "eval2", "eval"],
    ["eval2", "edit", "eval2"],
]


def import_dds() -> Any:
    if REPO not in sys.path:
        sys.path.insert(0, REPO)
    import dds  # noqa
    import logging
    logging.getLogger("dds").setLevel(logging.ERROR)
    try:    # warm import for the notebook-cells workers (forked children inherit it)
        import IPython.core.interactiveshell  # noqa
    except ImportError:
        pass
    f = os.path.realpath(dds.__file__)
    if not f.startswith(os.path.realpath(REPO) + os.sep):
        raise MachineryError("dds imported from %s, not from %s" % (f, REPO))
    return dds


def tlc_design(shapes: List[Shape], plans: List[List[str]], max_ver: int, store_kind: str,
               placement: str, layouts: List[str], cfg: str = "DdsEval_design.cfg",
               timeout: int = 900, name: str = "design", stages: List[int] = [5],
               fail_classes: List[str] = []) -> common.TLCResult:
    d = common.stage_spec({
        "ShapeData.tla": shp.shape_data_module(shapes),
        "RunConf.tla": runconf.runconf(max_ver, store_kind, placement, plans, False,
                                       list(range(1, len(shapes) + 1)), layouts, stages, fail_classes)}, name)
    r = common.run_tlc(d, "DdsEval.tla", cfg, timeout=timeout)
    common.tlc_must_pass(r, "DdsEval (%s, %d shapes)" % (cfg, len(shapes)))
    return r


def tlc_generate(shapes: List[Shape], plans: List[List[str]], max_ver: int, store_kind: str,
                 placement: str, layouts: List[str], cfg: str = "DdsEval_gen.cfg",
                 timeout: int = 900, name: str = "gen", stages: List[int] = [5],
                 fail_classes: List[str] = [], log_ops: bool = False) -> Tuple[common.TLCResult, List[Dict[str, Any]]]:
    """Histories of the bounded model, one per complete plan, with expected observables.
    Shapes are distributed over several single-worker TLC processes."""
    n = max(1, min(common.NCPU, len(shapes)))
    groups: List[List[int]] = [[] for _ in range(n)]
    for i in range(len(shapes)):
        groups[i % n].append(i + 1)
    with multiprocessing.get_context("fork").Pool(n) as pool:
        parts = pool.map(_gen_one, [(shapes, plans, max_ver, store_kind, placement, layouts, cfg,
                                     timeout, "%s%d" % (name, k), ids, stages, fail_classes, log_ops)
                                    for (k, ids) in enumerate(groups)])
    hists: List[Dict[str, Any]] = []
    first = None
    for (r, hs) in parts:
        first = first or r
        hists += hs
    assert first is not None
    return (first, hists)


def tlc_generate_start(shapes: List[Shape], plans: List[List[str]], max_ver: int, store_kind: str,
                       placement: str, layouts: List[str], cfg: str = "DdsEval_gen.cfg",
                       timeout: int = 900, name: str = "gen", stages: List[int] = [5],
                       fail_classes: List[str] = [], log_ops: bool = False, procs: int = 0) -> List[common.TLCHandle]:
    """tlc_generate, not waiting: the single-worker TLC processes are started and left running"""
    n = max(1, min(procs or common.NCPU, len(shapes)))
    groups: List[List[int]] = [[] for _ in range(n)]
    for i in range(len(shapes)):
        groups[i % n].append(i + 1)
    hs = []
    for (k, ids) in enumerate(groups):
        d = common.stage_spec({
            "ShapeData.tla": shp.shape_data_module(shapes),
            "RunConf.tla": runconf.runconf(max_ver, store_kind, placement, plans, True, ids, layouts,
                                           stages, fail_classes, log_ops)}, "%s%d" % (name, k))
        hs.append(common.start_tlc(d, "DdsEval.tla", cfg, workers=1, timeout=timeout, heap="2g"))
    return hs


def tlc_generate_finish(handles: List[common.TLCHandle], cfg: str = "DdsEval_gen.cfg") -> List[Dict[str, Any]]:
    hists: List[Dict[str, Any]] = []
    for h in handles:
        r = h.finish()
        common.tlc_must_pass(r, "DdsEval generation (%s)" % cfg)
        hists += r.printed("HIST")
    return hists


def _gen_one(a) -> Tuple[common.TLCResult, List[Dict[str, Any]]]:
    (shapes, plans, max_ver, store_kind, placement, layouts, cfg, timeout, name, ids, stages, fail_classes, log_ops) = a
    d = common.stage_spec({
        "ShapeData.tla": shp.shape_data_module(shapes),
        "RunConf.tla": runconf.runconf(max_ver, store_kind, placement, plans, True, ids, layouts,
                                       stages, fail_classes, log_ops)}, name)
    r = common.run_tlc(d, "DdsEval.tla", cfg, workers=1, timeout=timeout, heap="2g")
    common.tlc_must_pass(r, "DdsEval generation (%s)" % cfg)
    hs = r.printed("HIST")
    r.out = r.out[-3000:]
    return (r, hs)


# ----------------------------------------------------------------------------------------


def _replay_task(a) -> Tuple[int, Dict[int, Dict[str, Any]], float]:
    (idx, shape_json, hist, store_kind, mode, loads, options, eval_kwargs, root_base, accept, pristine) = a
    shape = Shape.from_json(shape_json)
    root = os.path.join(root_base, "h%d_%s" % (idx, mode))
    t0 = time.time()
    try:
        if mode == "cells":
            from . import envprops
            os.makedirs(os.path.join(root, "cwd_home"), exist_ok=True)
            obs = envprops.run_cells(shape, hist, root, {"cwd": "home", "debug": True})
            return (idx, obs, time.time() - t0)
        obs = replay.replay(shape, hist, root, store_kind, mode=mode, loads_after_eval=loads,
                            options=options, eval_kwargs=eval_kwargs, accept=accept, pristine_env=pristine)
    finally:
        replay.cleanup(root)
    return (idx, obs, time.time() - t0)


def replay_many(items: List[Tuple[Shape, List[Dict[str, Any]]]], store_kind: str, mode: str = "dds",
                loads: bool = False, options: Optional[Dict[str, Any]] = None,
                eval_kwargs: Optional[Dict[str, Any]] = None,
                budget_s: Optional[float] = None, accept: Optional[List[str]] = None,
                pristine: Optional[Dict[str, Any]] = None) -> List[Optional[Dict[int, Dict[str, Any]]]]:
    """Replays every (shape, history) in forked lanes; result list is aligned with items
    (None where the budget ran out)."""
    import_dds()
    base = common.sub_scratch("replay")
    tasks = [(i, s.to_json(), h, store_kind, mode, loads, options, eval_kwargs, base, accept, pristine)
             for (i, (s, h)) in enumerate(items)]
    out: List[Optional[Dict[int, Dict[str, Any]]]] = [None] * len(items)
    t0 = time.time()
    def feed() -> Iterable[Any]:
        for t in tasks:
            if budget_s is not None and time.time() - t0 > budget_s:
                return
            yield t

    with multiprocessing.get_context("fork").Pool(common.NCPU) as pool:
        for (idx, obs, dt) in pool.imap_unordered(_replay_task, feed(), chunksize=2):
            out[idx] = obs
    return out


def reference_check(items: List[Tuple[Shape, List[Dict[str, Any]]]], limit: int = 400) -> int:
    """Three-way agreement, first leg: the dds-free run of the materialised sources must return
    the specification's reference value.  A disagreement is a machinery failure."""
    sub = items[:: max(1, len(items) // limit)] if len(items) > limit else items
    res = replay_many(sub, "local", mode="stub")
    n = 0
    for ((shape, hist), obs) in zip(sub, res):
        if obs is None:
            continue
        for (i, rec) in enumerate(hist):
            if rec["op"] != "eval" or rec["err"] not in ("", []) or rec.get("stages", 5) < 5:
                continue
            if any(c != "no" for c in rec["prog"].get("fail", {}).values()):
                continue   # the failure switch is not referentially transparent: a served node would raise in the reference
            o = obs.get(i, {})
            if o.get("fatal") or o.get("err") or o.get("result") != rec["result"]:
                raise MachineryError(
                    "reference (dds-free) run disagrees with the specification on shape %s eval %d:\n"
                    "expected %s\nobserved %s" % (shape.name, i, rec["result"], o))
            n += 1
    return n


def sample_of(shape: Shape, hist: List[Dict[str, Any]], obs: Dict[int, Dict[str, Any]]) -> Dict[str, Any]:
    steps = []
    for (i, rec) in enumerate(hist):
        if rec["op"] == "eval":
            o = obs.get(i, {})
            steps.append({"eval": rec["style"], "expected_result": rec["result"], "expected_exec": rec["log"],
                          "observed_result": o.get("result"), "observed_exec": o.get("log")})
        elif rec["op"] == "edit":
            steps.append({"edit": rec["kind"], "what": rec["what"]})
        else:
            steps.append({rec["op"]: True})
    return {"shape": shape.name, "steps": steps}
