"""Generated module StoreConf: constants of a StoreModel run (design / generation) or the
per-trace definitions of a StoreTrace run."""
from typing import List
from .common import tlax


def design(keys: List[str], none_keys: List[str], npaths: int, cap: int, cache_absent: bool,
           store_kind: str, max_ops: int, gen: bool, max_sync: int = 2, sync_absent: bool = False) -> str:
    import itertools
    sync_sets = set()
    for n in range(1, max_sync + 1):
        for c in itertools.combinations(range(1, npaths + 1), n):
            sync_sets.add(frozenset(c))
    return "\n".join([
        "---- MODULE StoreConf ----",
        "Keys == %s" % tlax(set(keys)),
        "NoneKeys == %s" % tlax(set(none_keys)),
        "NPaths == %d" % npaths,
        "Cap == %d" % cap,
        "CacheAbsent == %s" % tlax(cache_absent),
        "StoreKind == %s" % tlax(store_kind),
        "MaxOps == %d" % max_ops,
        "GenMode == %s" % tlax(gen),
        "SyncSets == %s" % tlax(sync_sets),
        "SyncAbsent == %s" % tlax(sync_absent),
        "====", ""])


def trace() -> str:
    return "\n".join([
        "---- MODULE StoreConf ----",
        "EXTENDS Json, IOUtils, Sequences, Naturals",
        "VARIABLE tid",
        "Traces == JsonDeserialize(IOEnv.TRACE_FILE)",
        "T == Traces[tid]",
        "Keys == {T.keys[i] : i \\in 1..Len(T.keys)}",
        "NoneKeys == {T.none_keys[i] : i \\in 1..Len(T.none_keys)}",
        "NPaths == T.npaths",
        "Cap == T.cap",
        "CacheAbsent == FALSE",
        "StoreKind == T.kind",
        "MaxOps == 1000000",
        "GenMode == FALSE",
        "SyncSets == {}",
        "SyncAbsent == TRUE",
        "====", ""])
