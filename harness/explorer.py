"""
Systematic crash-point and schedule exploration of the real LocalFileStore code (C06, C07, C16).

A *shimmed* worker (harness/fsshim.py) announces every file-system call; the controller here
decides who proceeds, or sends SIGKILL between two calls (also between the two halves of a
write).  Exactly one file-system call is in flight at any time: a process is released only
after the previously released one has announced its next call or exited.
"""
import json
import os
import select
import signal
import time
import traceback
from typing import Any, Callable, Dict, List, Optional, Tuple

from . import worker

MUTATING = {"mkdir", "rmdir", "open_w", "write", "close", "unlink", "remove", "symlink", "rename", "replace",
            "link", "utime", "chmod", "truncate"}


class Proc(object):
    """A shimmed worker process running one segment."""

    def __init__(self, tag: str, seg: Dict[str, Any], roots: List[str]):
        self.tag = tag
        (req_r, req_w) = os.pipe()
        (go_r, go_w) = os.pipe()
        (res_r, res_w) = os.pipe()
        pid = os.fork()
        if pid == 0:
            code = 0
            try:
                os.close(req_r); os.close(go_w); os.close(res_r)
                from . import fsshim
                fsshim.install(roots, req_w, go_r)
                res = worker.run_segment(seg)
                fsshim.pause()
                with os.fdopen(res_w, "wb") as f:
                    f.write(json.dumps(res).encode("utf-8"))
            except BaseException:
                code = 3
                try:
                    traceback.print_exc()
                except BaseException:
                    pass
            finally:
                from .common import cov_save
                cov_save()
                os._exit(code)
        os.close(req_w); os.close(go_r); os.close(res_w)
        self.pid = pid
        self.req_r = req_r
        self.go_w = go_w
        self.res_r = res_r
        self.buf = b""
        self.alive = True
        self.killed = False
        self.pending: Optional[Dict[str, Any]] = None    # announced, not yet released
        self.events: List[Dict[str, Any]] = []
        self.result: Optional[Dict[str, Any]] = None
        self.nreq = 0

    def _read_lines(self, timeout: float) -> List[Dict[str, Any]]:
        out = []
        (r, _, _) = select.select([self.req_r], [], [], timeout)
        if not r:
            return out
        data = os.read(self.req_r, 1 << 16)
        if not data:
            self._finish()
            return out
        self.buf += data
        while b"\n" in self.buf:
            (line, self.buf) = self.buf.split(b"\n", 1)
            out.append(json.loads(line.decode("utf-8")))
        return out

    def _finish(self) -> None:
        if not self.alive:
            return
        self.alive = False
        chunks = []
        while True:
            b = os.read(self.res_r, 1 << 16)
            if not b:
                break
            chunks.append(b)
        data = b"".join(chunks)
        if data:
            self.result = json.loads(data.decode("utf-8"))
        os.waitpid(self.pid, 0)
        for fd in (self.req_r, self.go_w, self.res_r):
            try:
                os.close(fd)
            except OSError:
                pass

    def advance(self, deadline: float = 60.0) -> None:
        """Run until the process announces its next call (-> self.pending) or exits."""
        t0 = time.time()
        while self.alive and self.pending is None:
            for m in self._read_lines(1.0):
                if m["t"] == "req":
                    self.nreq += 1
                    m["n"] = self.nreq
                    self.pending = m
                self.events.append(m)
            if time.time() - t0 > deadline:
                self.kill()
                raise RuntimeError("worker %s did not reach its next file-system call" % self.tag)

    def release(self) -> None:
        assert self.pending is not None
        self.pending = None
        os.write(self.go_w, b"g")

    def kill(self) -> None:
        if self.alive:
            try:
                os.kill(self.pid, signal.SIGKILL)
            except ProcessLookupError:
                pass
            self.killed = True
            self.alive = False
            os.waitpid(self.pid, 0)
            for fd in (self.req_r, self.go_w, self.res_r):
                try:
                    os.close(fd)
                except OSError:
                    pass


def run_solo(seg: Dict[str, Any], roots: List[str], crash_before: Optional[int] = None,
             crash_filter: Optional[Callable[[Dict[str, Any]], bool]] = None) -> Proc:
    """Run one shimmed process to completion, or kill it just before its `crash_before`-th
    *mutating* file-system call (counting from 1)."""
    p = Proc("solo", seg, roots)
    nmut = 0
    while True:
        p.advance()
        if not p.alive:
            break
        m = p.pending
        assert m is not None
        if m["op"] in MUTATING and (crash_filter is None or crash_filter(m)):
            nmut += 1
            m["mut"] = nmut
            if crash_before is not None and nmut == crash_before:
                p.kill()
                break
        p.release()
    p.nmut = nmut   # type: ignore
    return p


def ops_of(p: Proc) -> List[Dict[str, Any]]:
    """The announced calls with their results, in order."""
    res: Dict[int, Dict[str, Any]] = {}
    out = []
    for e in p.events:
        if e["t"] == "req":
            x = {"op": e["op"], "args": e["args"], "seq": e["seq"], "mut": e.get("mut")}
            res[e["seq"]] = x
            out.append(x)
        elif e["t"] == "res" and e["seq"] in res:
            res[e["seq"]]["ok"] = e["ok"]
            res[e["seq"]]["res"] = e["res"]
        elif e["t"] == "api":
            out.append({"api": e})
    return out


# ----------------------------------------------------------------------------------------
# Several processes under a controlled scheduler
# ----------------------------------------------------------------------------------------


def run_schedule(segs: Dict[str, Dict[str, Any]], roots: List[str], prefix: List[str],
                 max_steps: int = 2000) -> Dict[str, Any]:
    """Run the shimmed processes `segs` (tag -> segment).  `prefix` lists the tags to release,
    one per step; afterwards the current process keeps running until it exits, then the
    alphabetically next one.  Returns the choices made, the enabled sets, and the results."""
    procs = {t: Proc(t, s, roots) for (t, s) in sorted(segs.items())}
    for p in procs.values():
        p.advance()
    choices: List[str] = []
    enabled_at: List[List[str]] = []
    merged: List[Dict[str, Any]] = []
    cur: Optional[str] = None
    try:
        for step in range(max_steps):
            enabled = sorted(t for (t, p) in procs.items() if p.alive and p.pending is not None)
            if not enabled:
                break
            if step < len(prefix) and prefix[step] in enabled:
                t = prefix[step]
            elif cur in enabled:
                t = cur            # type: ignore
            else:
                t = enabled[0]
            enabled_at.append(enabled)
            choices.append(t)
            p = procs[t]
            m = p.pending
            n_before = len(p.events)
            p.release()
            p.advance()
            # the call just performed: its request and its result
            res = [e for e in p.events[n_before:] if e["t"] == "res" and e["seq"] == m["seq"]]
            merged.append({"proc": t, "op": m["op"], "args": m["args"], "ok": res[0]["ok"] if res else None,
                           "res": res[0]["res"] if res else None})
            cur = t
    finally:
        for p in procs.values():
            if p.alive:
                p.kill()
    return {"choices": choices, "enabled": enabled_at, "merged": merged,
            "results": {t: p.result for (t, p) in procs.items()},
            "killed": {t: p.killed for (t, p) in procs.items()}}


def preemptions(choices: List[str], enabled: List[List[str]]) -> int:
    n = 0
    for i in range(1, len(choices)):
        if choices[i] != choices[i - 1] and choices[i - 1] in enabled[i]:
            n += 1
    return n


def explore(run: Callable[[List[str]], Dict[str, Any]], bound: int, limit: int,
            on_result: Callable[[List[str], Dict[str, Any]], None]) -> int:
    """Depth-first enumeration of schedules with at most `bound` preemptions.  `run(prefix)`
    executes one schedule; children of an execution flip one later choice."""
    stack: List[List[str]] = [[]]
    seen = set()
    n = 0
    while stack and n < limit:
        prefix = stack.pop()
        key = tuple(prefix)
        if key in seen:
            continue
        seen.add(key)
        r = run(prefix)
        n += 1
        on_result(prefix, r)
        (ch, en) = (r["choices"], r["enabled"])
        for i in range(len(prefix), len(ch)):
            for alt in en[i]:
                if alt == ch[i]:
                    continue
                cand = ch[:i] + [alt]
                if preemptions(cand, en[: i + 1]) <= bound and tuple(cand) not in seen:
                    stack.append(cand)
    return n
