"""TLC side of the file-system properties: design-level model checking of LocalStoreFSMC per
scenario and write protocol, and validation of recorded call traces against FsTrace."""
import json
import os
from typing import Any, Dict, List, Optional, Tuple

from . import common, fsconf
from .common import MachineryError

CRASH_SCENARIOS = ["crash_first_keep", "crash_rekeep", "crash_two_paths", "crash_nested", "crash_nested_rekeep"]
RACE_SCENARIOS = ["race_same_keep_cold", "race_keep_vs_load", "race_rekeep_vs_rekeep"]


def design_checks(rep, prop: str, tier: str) -> None:
    """The protocol "atomic" must satisfy every invariant in every scenario (the property is
    achievable by design); the protocol "inplace" (the pinned tree's) must be rejected (the
    invariants are not vacuous).  Which protocol the working tree follows is measured from
    its recorded calls (impl_algo in evidence), not assumed."""
    names = CRASH_SCENARIOS if prop == "C06" else RACE_SCENARIOS + (["race_three"] if tier == "thorough" or prop == "C07" else [])
    states = trans = 0
    rejected = {}
    for n in names:
        d = common.stage_spec({"FsConf.tla": fsconf.module(n, "atomic")}, "fs_" + n)
        r = common.run_tlc(d, "LocalStoreFSMC.tla", "LocalStoreFSMC.cfg", timeout=900)
        common.tlc_must_pass(r, "LocalStoreFSMC %s (atomic)" % n)
        states += r.distinct
        trans += r.generated
        d = common.stage_spec({"FsConf.tla": fsconf.module(n, "inplace")}, "fsi_" + n)
        r2 = common.run_tlc(d, "LocalStoreFSMC.tla", "LocalStoreFSMC.cfg", timeout=900)
        if r2.no_error or not r2.violated:
            raise MachineryError("spec self-test: LocalStoreFSMC %s with the in-place protocol was not rejected" % n)
        rejected[n] = r2.violated
    rep.cov["states"] = states
    rep.cov["transitions"] = trans
    rep.cov["design_scenarios"] = names
    rep.cov["inplace_protocol_rejected_by"] = rejected


def measure_algo(trace: List[Dict[str, Any]]) -> str:
    """Which write protocol do the recorded calls follow?"""
    ops = [(e["op"], e["args"]) for e in trace]
    renames = [a for (o, a) in ops if o in ("rename", "replace")]
    inplace_blob = any(o == "open_w" and _is_final_blob(a[0]) for (o, a) in ops)
    if renames and not inplace_blob:
        return "atomic"
    if inplace_blob:
        return "inplace"
    return "unknown"


def _is_final_blob(p: str) -> bool:
    b = os.path.basename(p)
    b = b[:-5] if b.endswith(".meta") else b
    return len(b) == 64 and all(c in "0123456789abcdef" for c in b) and "/blobs/" in p


def to_fs_events(trace: List[Dict[str, Any]]) -> List[Dict[str, Any]]:
    evs = []
    for e in trace:
        a = e["args"]
        ev: Dict[str, Any] = {"op": e["op"], "ok": bool(e.get("ok")), "res": e.get("res") if isinstance(e.get("res"), str) else "",
                              "p": "", "par": "", "p2": "", "par2": "", "half": 0}
        if e["op"] in ("symlink", "rename", "replace", "link"):
            ev["p"] = a[0]
            ev["par"] = os.path.dirname(a[0])
            ev["p2"] = a[1]
            ev["par2"] = os.path.dirname(a[1])
        else:
            ev["p"] = a[0]
            ev["par"] = os.path.dirname(a[0])
            if e["op"] == "write":
                ev["half"] = a[1]
        evs.append(ev)
    return evs


def snapshot(store_dir: str, root: str) -> List[List[str]]:
    """entries <<path relative to root (leading /), type, link target>> of the tree below store_dir,
    plus store_dir itself and its ancestors up to root"""
    res: List[Any] = []

    def rel(p: str) -> str:
        return p.replace(root, "")
    d = store_dir
    while len(d) >= len(root) and d != root:
        if os.path.isdir(d):
            res.append([rel(d), "dir", ""])
        d = os.path.dirname(d)
    res.append(["/", "dir", ""])     # the scratch root itself
    for (dp, dn, fn) in os.walk(store_dir, followlinks=False):
        for n in dn + fn:
            p = os.path.join(dp, n)
            if os.path.islink(p):
                res.append([rel(p), "link", rel(os.readlink(p))])
            elif os.path.isdir(p):
                res.append([rel(p), "dir", ""])
            else:
                res.append([rel(p), "file", ""])
    return [r for r in res if r is not None]


def validate_fs_traces(rep, traces: List[Dict[str, Any]], name: str = "fstrace") -> int:
    """traces: [{"init": entries, "events": recorded calls (explorer.ops_of form, paths relative), "final": entries}]"""
    if not traces:
        return 0
    doc = []
    for t in traces:
        root_entry = [["/" + x, "dir", ""] for x in []]
        doc.append({"init": t["init"], "events": to_fs_events(t["events"]), "final": t["final"]})
    # binding self-test: a copy of a recorded trace whose final tree lacks one entry must be flagged
    n_real = len(doc)
    donor = [t for t in doc if len(t["final"]) > len(t["init"])]
    if donor:
        import copy
        c = copy.deepcopy(donor[0])
        gone = [e for e in c["final"] if e not in c["init"]][-1]
        c["final"] = [e for e in c["final"] if e != gone]
        doc.append(c)
    d = common.stage_spec({}, name)
    tf = os.path.join(d, "fstraces.json")
    with open(tf, "w") as f:
        json.dump(doc, f)
    r = common.run_tlc(d, "FsTrace.tla", "FsTrace.cfg", workers=1, timeout=900, env={"TRACE_FILE": tf},
                       java_opts=["-Dtlc2.tool.queue.IStateQueue=StateDeque"])
    common.tlc_must_pass(r, "FsTrace")
    done = {x["tid"]: x for x in r.printed("DONE")}
    if len(done) != len(doc):
        raise MachineryError("FsTrace judged %d of %d traces" % (len(done), len(doc)))
    if len(doc) > n_real:
        x = done[len(doc)]
        if not x["bad"] and x["tree_ok"]:
            raise MachineryError("binding self-test: FsTrace accepted a recorded trace whose final tree was altered")
        rep.cov["corrupted_fs_traces_rejected"] = 1
        del done[len(doc)]
        doc = doc[:n_real]
    nbad = 0
    for (tid, x) in sorted(done.items()):
        if x["bad"] or not x["tree_ok"]:
            nbad += 1
            if nbad <= 3:
                rep.notes.append("FsTrace: trace %d: %s tree_ok=%s extra=%s missing=%s" % (
                    tid, x["bad"][:3], x["tree_ok"], x["extra"][:3], x["missing"][:3]))
    rep.cov["fs_trace_states"] = r.distinct
    rep.cov["fs_traces_rejected"] = nbad
    if nbad:
        # the shim or the POSIX model misrepresents the code: nothing reported on this basis can be trusted
        raise MachineryError("file-system model and recorded calls disagree on %d trace(s): %s" % (nbad, rep.notes[-3:]))
    return len(doc)


# ----------------------------------------------------------------------------------------
# Conformance of the real store with the algorithm model (LocalStoreFSTrace)
# ----------------------------------------------------------------------------------------


def abstract_events(trace: List[Dict[str, Any]]) -> List[List[str]]:
    """Recorded calls (relative paths, /store/...) -> the mutating events of LocalStoreFSTrace."""
    evs: List[List[str]] = []
    for e in trace:
        op = e["op"]
        a = e["args"]
        if not e.get("ok", True):
            continue
        tgt = a[-1] if op in ("symlink", "rename", "replace", "link") else a[0]
        parts = [x for x in tgt.split("/") if x]
        under_int = "internal" in parts
        base = parts[-1] if parts else ""

        def what_file(p: str) -> str:
            b = os.path.basename(p)
            if ".meta" in b:
                return "meta"
            return "blob"
        if op == "mkdir":
            if base == "internal" or base == "store":
                if base == "internal":
                    evs.append(["mkdir", "internal"])
            elif base == "blobs":
                evs.append(["mkdir", "blobs"])
            elif under_int:
                evs.append(["mkdir", "other-internal"])
            elif base.startswith("data"):
                evs.append(["mkdir", "data"])
            else:
                evs.append(["mkdir", "sub"])
        elif op == "open_w":
            evs.append(["open", what_file(tgt)] if under_int else ["open", "data-file"])
        elif op == "write":
            evs.append(["write%d" % a[1], what_file(tgt)])
        elif op in ("rename", "replace"):
            evs.append(["rename", what_file(tgt)] if under_int else ["rename", "link"])
        elif op in ("unlink", "remove"):
            evs.append(["remove", what_file(tgt)] if under_int else ["remove", "link"])
        elif op == "symlink":
            evs.append(["symlink", "tmp" if ".tmp" in base else "link"])
        elif op in ("rmdir", "link", "truncate"):
            evs.append([op, "?"])
    return evs


def conformance(trace: List[Dict[str, Any]], scenario: str, name: str = "conf") -> Dict[str, Any]:
    """Which write protocol of the model performs exactly the recorded mutating calls?"""
    evs = abstract_events(trace)
    res: Dict[str, Any] = {"events": len(evs)}
    for algo in ("atomic", "inplace"):
        d = common.stage_spec({"FsConf.tla": fsconf.module(scenario, algo)}, "%s_%s" % (name, algo))
        tf = os.path.join(d, "events.json")
        with open(tf, "w") as f:
            json.dump(evs, f)
        r = common.run_tlc(d, "LocalStoreFSTrace.tla", "LocalStoreFSTrace.cfg", workers=1, timeout=300, env={"TRACE_FILE": tf})
        common.tlc_must_pass(r, "LocalStoreFSTrace (%s, %s)" % (scenario, algo))
        done = r.printed("DONE")
        ok = any(x["verdict"] == ["ok"] and x["finished"] and x["consumed"] == x["total"] and x["err"] == "" for x in done)
        res[algo] = ok
        if not ok:
            bad = [x for x in done if x["verdict"] != ["ok"]]
            res[algo + "_first_mismatch"] = bad[0]["verdict"] if bad else (done[-1] if done else None)
    res["algo"] = "atomic" if res["atomic"] else ("inplace" if res["inplace"] else "neither")
    return res
