"""
C16 - every usable local-store configuration works; data dirs are independent views.
spec/StoreViews.tla gives the behaviours (keep / load through two views, chdir, fresh
process) and the expected answers; every behaviour is replayed under every *spelling* of the
directories and every cache_objects setting.
"""
import json
import multiprocessing
import os
import shutil
import sys
from typing import Any, Dict, List, Optional, Tuple

from . import common, evalfam
from .common import MachineryError, Report, tlax

VIEWS = ["v1", "v2"]
PATHS = ["/q1", "/d/e/q2"]
KEYS = ["kA", "kB"]

SPELLINGS = ["absolute", "relative", "trailing-slash", "nested-new", "symlinked-parent", "relative-dot",
             "symlinked-data-parent", "symlinked-internal-parent"]
CACHE = [None, False, True, 0, -1, 2]

MODSRC = '''import dds
import _vcount as C


def fa():
    C.hit("fa")
    return ["result", "kA"]


def fb():
    C.hit("fb")
    return ["result", "kB"]
'''
COUNTSRC = '''LOG = []


def hit(n):
    LOG.append(n)
'''


def conf(max_ops: int, gen: bool) -> str:
    return "\n".join(["---- MODULE ViewsConf ----",
                      "Views == %s" % tlax(set(VIEWS)), "Paths == %s" % tlax(set(PATHS)),
                      "Keys == %s" % tlax(set(KEYS)), "MaxOps == %d" % max_ops, "GenMode == %s" % tlax(gen),
                      "====", ""])


def dirs_for(spelling: str, base: str, view: str) -> Tuple[str, str, str]:
    """(internal_dir as configured, data_dir as configured, cwd at configuration time)"""
    home = os.path.join(base, "home")
    if spelling == "absolute":
        return (os.path.join(base, "st", "internal"), os.path.join(base, "st", "data_" + view), home)
    if spelling == "relative":
        return (os.path.join("st", "internal"), os.path.join("st", "data_" + view), home)
    if spelling == "relative-dot":
        return ("./st/../st/internal", "./st/data_" + view, home)
    if spelling == "trailing-slash":
        return (os.path.join(base, "st", "internal") + "/", os.path.join(base, "st", "data_" + view) + "/", home)
    if spelling == "nested-new":
        return (os.path.join(base, "st", "a", "b", "internal"), os.path.join(base, "st", "c", "d", "data_" + view), home)
    if spelling == "symlinked-parent":
        return (os.path.join(base, "lnk", "internal"), os.path.join(base, "lnk", "data_" + view), home)
    if spelling == "symlinked-data-parent":
        # base/work -> base/volumes/scratch/user : the physical place of the data dir is deeper than its name says
        return (os.path.join(base, "st", "internal"), os.path.join(base, "work", "data_" + view), home)
    if spelling == "symlinked-internal-parent":
        return (os.path.join(base, "iwork", "internal"), os.path.join(base, "st", "data_" + view), home)
    raise ValueError(spelling)


def _proc(args) -> Dict[str, Any]:
    """One client process: executes ops until the next 'newproc' (exclusive); returns answers."""
    (base, spelling, cache, ops) = args
    import importlib
    import dds
    import dds._api as api
    home = os.path.join(base, "home")
    os.chdir(home)
    if base not in sys.path:
        sys.path.insert(0, base)
    importlib.invalidate_caches()
    dds.accept_module("vviews")
    mod = importlib.import_module("vviews.m")
    C = importlib.import_module("_vcount")
    stores: Dict[str, Any] = {}
    out = []
    for op in ops:
        ans: Dict[str, Any] = {}
        try:
            common.arm(90)
            if op["op"] == "chdir":
                os.chdir(os.path.join(base, "elsewhere") if os.getcwd() == os.path.realpath(home) or os.getcwd() == home else home)
                ans = {"executed": False, "value": ["ok"]}
            elif op["op"] in ("keep", "load"):
                v = op["view"]
                if v not in stores:
                    # configured from the original directory, as a fresh program would
                    here = os.getcwd()
                    os.chdir(home)
                    (i, d, _) = dirs_for(spelling, base, v)
                    dds.set_store("local", internal_dir=i, data_dir=d, cache_objects=cache)
                    stores[v] = api._store_var
                    os.chdir(here)
                api._store_var = stores[v]
                del C.LOG[:]
                if op["op"] == "keep":
                    f = mod.fa if op["k"] == "kA" else mod.fb
                    r = dds.keep(op["q"], f)
                    ans = {"executed": bool(C.LOG), "value": ["V", r[1]] if isinstance(r, list) and len(r) == 2 else ["WRONG", repr(r)]}
                else:
                    try:
                        r = dds.load(op["q"])
                        ans = {"executed": False, "value": ["V", r[1]] if isinstance(r, list) and len(r) == 2 else ["WRONG", repr(r)]}
                    except dds.DDSException:
                        ans = {"executed": False, "value": ["missing"]}
        except BaseException as e:
            ans = {"executed": False, "value": ["EXC", type(e).__name__, str(e)[:160]]}
        out.append(ans)
    common.disarm()
    return {"answers": out}


def _replay(a) -> Dict[str, Any]:
    (idx, hist, spelling, cache, base0) = a
    base = os.path.join(base0, "w%d" % idx)
    os.makedirs(os.path.join(base, "home"))
    os.makedirs(os.path.join(base, "elsewhere"))
    os.makedirs(os.path.join(base, "vviews"))
    open(os.path.join(base, "vviews", "__init__.py"), "w").close()
    open(os.path.join(base, "vviews", "m.py"), "w").write(MODSRC)
    open(os.path.join(base, "_vcount.py"), "w").write(COUNTSRC)
    if spelling == "symlinked-parent":
        os.makedirs(os.path.join(base, "real_target"))
        os.symlink(os.path.join(base, "real_target"), os.path.join(base, "lnk"))
    if spelling == "symlinked-data-parent":
        os.makedirs(os.path.join(base, "volumes", "scratch", "user"))
        os.symlink(os.path.join(base, "volumes", "scratch", "user"), os.path.join(base, "work"))
    if spelling == "symlinked-internal-parent":
        os.makedirs(os.path.join(base, "mnt", "deep", "er", "vol"))
        os.symlink(os.path.join(base, "mnt", "deep", "er", "vol"), os.path.join(base, "iwork"))
    # cut at 'newproc'
    segs: List[List[Dict[str, Any]]] = [[]]
    for op in hist:
        if op["op"] == "newproc":
            segs.append([])
        else:
            segs[-1].append(op)
    answers: List[Any] = []
    try:
        for (si, seg) in enumerate(segs):
            if si > 0:
                answers.append({"executed": False, "value": ["ok"]})
            if not seg:
                continue
            (r, w) = os.pipe()
            pid = os.fork()
            if pid == 0:
                try:
                    os.close(r)
                    res = _proc((base, spelling, cache, seg))
                    with os.fdopen(w, "wb") as f:
                        f.write(json.dumps(res).encode())
                finally:
                    common.cov_save()
                    os._exit(0)
            os.close(w)
            with os.fdopen(r, "rb") as f:
                data = f.read()
            os.waitpid(pid, 0)
            if not data:
                return {"idx": idx, "fatal": "client process died"}
            answers += json.loads(data.decode())["answers"]
    finally:
        shutil.rmtree(base, ignore_errors=True)
    return {"idx": idx, "answers": answers, "fatal": None}


def run_c16(tier: str) -> int:
    rep = Report("C16", tier)
    evalfam.import_dds()
    d = common.stage_spec({"ViewsConf.tla": conf(1000000, False)}, "views_d")
    r = common.run_tlc(d, "StoreViews.tla", "StoreViews_design.cfg", timeout=600)
    common.tlc_must_pass(r, "StoreViews design")
    rep.cov["states"] = r.distinct
    rep.cov["transitions"] = r.generated
    depth = 4 if tier == "quick" else 5
    hs: List[Any] = []
    d2 = common.stage_spec({"ViewsConf.tla": conf(3, True)}, "views_g3")
    r3 = common.run_tlc(d2, "StoreViews.tla", "StoreViews_gen.cfg", workers=1, timeout=600)
    common.tlc_must_pass(r3, "StoreViews generation")
    hs += r3.printed("HIST")
    d3 = common.stage_spec({"ViewsConf.tla": conf(9, True)}, "views_gs")
    rs = common.run_tlc(d3, "StoreViews.tla", "StoreViews_gen.cfg", workers=1, timeout=600,
                        extra=["-simulate", "num=%d" % (300 if tier == "quick" else 4000), "-depth", "10", "-seed", str(common.seed() + 5)])
    if rs.rc != 0:
        raise MachineryError("StoreViews simulation failed:\n" + rs.tail(20))
    hs += rs.printed("HIST")
    base = common.sub_scratch("views")
    tasks = []
    for (i, h) in enumerate(hs):
        if tier == "thorough":
            combos = [(s, c) for s in SPELLINGS for c in (CACHE if i % 7 == 0 else [CACHE[i % len(CACHE)]])]
        else:
            combos = [(SPELLINGS[i % len(SPELLINGS)], CACHE[(i // len(SPELLINGS)) % len(CACHE)])]
            if i % 5 == 0:
                combos.append((SPELLINGS[(i + 1) % len(SPELLINGS)], CACHE[(i + 2) % len(CACHE)]))
        for (s, c) in combos:
            tasks.append((len(tasks), h, s, c, base))
    with multiprocessing.get_context("fork").Pool(common.NCPU) as pool:
        outs = pool.map(_replay, tasks, chunksize=4)
    n = 0
    nontriv = set()
    for (t, out) in zip(tasks, outs):
        (_, h, spelling, cache, _) = t
        if out["fatal"]:
            raise MachineryError("C16 replay failed: %s" % out["fatal"])
        n += 1
        two_views = len(set(o["view"] for o in h if o["op"] in ("keep", "load"))) > 1
        moved = any(o["op"] in ("chdir", "newproc") for o in h)
        if two_views or moved:
            nontriv.add((spelling, repr(cache), json.dumps(h)))
        for (j, (o, a)) in enumerate(zip(h, out["answers"])):
            exp = o["ans"]
            if a["value"] != exp["value"]:
                after = "after-chdir" if any(x["op"] == "chdir" for x in h[:j]) else ("after-newproc" if any(x["op"] == "newproc" for x in h[:j]) else "same-process")
                got = a["value"][0] if a["value"][0] != "EXC" else "EXC:" + a["value"][1]
                rep.violation("C16|%s|%s|expected=%s|got=%s|%s" % (spelling, o["op"], exp["value"][0], got, after),
                              {"spelling": spelling, "cache_objects": cache, "ops": h[: j + 1], "expected": exp, "observed": a})
                break
            if o["op"] == "keep" and a["executed"] and not exp["executed"]:
                other = any(x["op"] == "keep" and x["k"] == o["k"] and x["view"] != o["view"] for x in h[:j])
                rep.violation("C16|%s|recomputed|%s|cache=%r" % (spelling, "blob-from-other-view" if other else "blob-from-same-view", cache),
                              {"spelling": spelling, "cache_objects": cache, "ops": h[: j + 1]})
                break
        else:
            rep.add_sample({"spelling": spelling, "cache_objects": cache, "ops": [[o["op"], o["view"], o["q"], o["k"], o["ans"]] for o in h]})
    rep.cov["traces_validated_against_impl"] = n
    rep.cov["evaluations"] = n
    rep.cov["distinct_nontrivial"] = len(nontriv)
    rep.cov["rule"] = ("behaviour = sequence of keep / load through two data views of one internal directory, chdir and fresh-process "
                       "steps (all sequences of length 3 + simulated length 9), replayed under a directory spelling and a "
                       "cache_objects setting; non-trivial when it uses both views or moves (chdir / new process)")
    rep.cov["spellings"] = SPELLINGS
    rep.cov["cache_objects"] = [repr(c) for c in CACHE]
    rep.cov["exhaustive"] = False
    rep.assumptions += ["a relative configuration is interpreted in the working directory at configuration time"]
    if len(nontriv) < 2:
        rep.finish()
        raise MachineryError("vacuity guard")
    return rep.finish()


def replay_file(prop: str, path: str) -> int:
    evalfam.import_dds()
    with open(path) as f:
        v = json.load(f)
    d = v["detail"]
    print("cause: %s" % v["fingerprint"])
    out = _replay((0, d["ops"], d["spelling"], d["cache_objects"], common.sub_scratch("replay16")))
    bad = 0
    for (o, a) in zip(d["ops"], out.get("answers", [])):
        flag = "" if a["value"] == o["ans"]["value"] and not (a["executed"] and not o["ans"]["executed"]) else "  <-- differs"
        bad += 1 if flag else 0
        print("%-8s %-3s %-8s %-3s expected=%s observed=%s%s" % (o["op"], o["view"], o["q"], o["k"], o["ans"], a, flag))
    if bad:
        print("VIOLATION property=%s replay=%s" % (prop, path))
    return 1 if bad else 0
