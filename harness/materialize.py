"""
Materialiser: abstract program (shape + program state) -> real Python package on disk.

The generated code returns, for each function, the term  [name, bodyVer, x, [reads], [stmts]]
that DdsEval.Val defines, so the value returned by the real code can be compared with the
specification's reference value verbatim.

Realisation choices (several concrete forms per abstract construct) live in shape.real:
  import_form : "from" | "from_as" | "module" | "module_as"     (split layout only)
  var_form    : "global" (variable defined in the module of its reader)
"""
import os
from typing import Optional, Any, Dict, List, Tuple

from .shapes import Shape

PKG = "vpkg"

# Python source of the value of a tracked variable, per type and version
VAL_SRC: Dict[str, List[str]] = {
    "int": ["3", "4", "5"],
    "str": ['"a"', '"b"', '"c"'],
    "float": ["0.5", "1.5", "2.5"],
    "bool": ["False", "True"],
    "tuple": ["(1, 2)", "(1, 3)", "(2, 3)"],
    "list": ["[1]", "[2]", "[3]"],
    "dict": ['{"k": 1, "j": "x", "alpha": 0}', '{"k": 2, "j": "x", "alpha": 0}', '{"k": 1, "j": "y", "alpha": 0}'],
    "none": ["None", "1"],
    "date": ["datetime.date(2020, 1, 1)", "datetime.date(2020, 1, 2)", "datetime.date(2020, 1, 3)"],
    "purepath": ['PurePosixPath("/x0")', 'PurePosixPath("/x1")', 'PurePosixPath("/x2")'],
    # a tuple holding a list: in-process edits MUTATE the list in place (same tuple object)
    "tuplelist": ['("v", [1])', '("v", [1, 2])'],
    # a concrete, RELATIVE pathlib.Path: its hash must not involve the working directory
    "relpath": ['pathlib.Path("data/in0.csv")', 'pathlib.Path("data/in1.csv")', 'pathlib.Path("data/sub/../in0.csv")'],
    # an instance of a dataclass defined in the accepted module itself (moves with the code)
    "dataclass_local": ["DCm(1, 2)", "DCm(1, 3)", "DCm(2, 3)"],
    "namedtuple": ["L.NT(1, 2)", "L.NT(1, 3)", "L.NT(2, 3)"],
    "dataclass": ["L.DC(1, 2)", "L.DC(1, 3)", "L.DC(2, 3)"],
}

VLOG_SRC = '''"""Non-accepted helper module of the generated programs: execution log, failure switch,
encoders.  dds sees it by name only."""
import collections
import dataclasses
import datetime
import pathlib
from pathlib import PurePosixPath

EXT_VER = %(ext)d

NT = collections.namedtuple("NT", ["a", "b"])


@dataclasses.dataclass(frozen=True)
class DC:
    a: int
    b: int


LOG = []
FAIL = {}
VALS = {}


def hit(name):
    LOG.append(name)
    exc = FAIL.get(name)
    if exc is not None:
        raise exc


def enc(name, value):
    """Version index of the value of variable `name` (-1 when it is none of its versions)."""
    vs = VALS.get(name, [])
    if dataclasses.is_dataclass(value) and type(value).__name__ == "DCm":
        value = ("DCm",) + dataclasses.astuple(value)      # the class lives in the generated module
    for (i, v) in enumerate(vs):
        if type(v) is type(value) and v == value:
            return i
    return -1


ARG_VALS = [0, None, "", 1]


def push(sofar, v):
    """`h()` written inside an argument expression: its value still is the value of a statement"""
    sofar.append(v)
    return sofar


def rt2(sofar, x):
    return rt(x, sofar)


def rt(x, sofar):
    """A run-time (non literal) argument: computed from a literal and from what the caller has
    obtained so far (the values of its earlier statements)."""
    return [encx(x), list(sofar)]%(extbody)s


def encx(x):
    """Version index of an argument value (several falsy values on purpose); other values as is."""
    if isinstance(x, list):
        return x
    for (i, v) in enumerate(ARG_VALS):
        if type(v) is type(x) and v == x:
            return i
    return x


def apply(f):
    return f()


def ident(v=None):
    return v
'''


# Python source of an argument literal per version: several *falsy* values on purpose
ARG_SRC = ["0", "None", '""', "1"]


def _vals_table(shape: Shape) -> str:
    lines = []
    for v in shape.vars:
        lines.append("VALS[%r] = [%s]" % (v, ", ".join(
            s.replace("L.", "").replace("DCm(", '("DCm", ') for s in VAL_SRC[shape.vtype[v]])))
    return "\n".join(lines) + "\n"


def arg_map(prog: Dict[str, Any]) -> Dict[Tuple[str, int], int]:
    return {(a[0], a[1]): a[2] for a in prog["arg"]}


def pexpr(shape: Shape, p: str) -> str:
    """source of a store path: the literal, or (realisation `path_vars`) the name of a module-level
    variable holding it (a str or a pathlib.Path, both documented)"""
    if shape.real.get("path_vars"):
        return "P_%d" % shape.all_paths().index(p)
    return repr(p)


def path_var_defs(shape: Shape, used: List[str]) -> List[str]:
    res = []
    for p in sorted(set(used)):
        k = shape.all_paths().index(p)
        res.append("P_%d = %s" % (k, repr(p) if k % 2 == 0 else "pathlib.Path(%r)" % p))
    return res


def _stmt_lines(shape: Shape, f: str, i: int, s: Dict[str, str], args: Dict[Tuple[str, int], int],
                names: Dict[str, str], inline_prev: Optional[str] = None) -> List[str]:
    """inline_prev: source of the previous statement's call, to be evaluated INSIDE the argument
    expression of this (run-time argument) keep"""
    k = s["k"]
    if k == "load":
        return ["    sv.append(dds.load(%s))" % pexpr(shape, s["p"])]
    # the callee of a keep must be a plain name (documented restriction, UNSUPPORTED_CALLABLE_TYPE)
    g = names[s["g"]] if k not in ("keep", "ref") else names.get(k + ":" + s["g"], names[s["g"]])
    if k == "call":
        if s["g"] in shape.real.get("as_class", []):
            return ["    sv.append(%s().run())" % g]
        a_ = s["a"]
        if a_ in ("none", "default"):
            if shape.real.get("kw_wrap"):
                return ["    sv.append(L.ident(v=%s()))" % g]
            return ["    sv.append(%s())" % g]
        lit_ = ARG_SRC[args.get((f, i + 1), 0)]
        src_ = {"const": lit_, "kw": "x=" + lit_, "pass": "x", "runtime": "L.rt(%s, sv)" % lit_}[a_]
        if shape.real.get("kw_wrap"):
            # realisation: the plain call sits in a keyword-argument value of a non-accepted identity
            # helper (seeded change R7-C09: the load / keep pre-pass skipping keyword values)
            return ["    sv.append(L.ident(v=%s(%s)))" % (g, src_)]
        return ["    sv.append(%s(%s))" % (g, src_)]
    if k == "eval":
        return ["    sv.append(dds.eval(%s))" % g]
    if k == "ref":
        return ["    sv.append(L.apply(%s))" % g]
    assert k == "keep", s
    a = s["a"]
    ver = args.get((f, i + 1), 0)
    if a == "none" or a == "default":
        return ["    sv.append(dds.keep(%s, %s))" % (pexpr(shape, s["p"]), g)]
    if a == "pass":
        return ["    sv.append(dds.keep(%s, %s, x))" % (pexpr(shape, s["p"]), g)]
    lit = ARG_SRC[ver]
    if a == "const":
        return ["    sv.append(dds.keep(%s, %s, %s))" % (pexpr(shape, s["p"]), g, lit)]
    if a == "kw":
        return ["    sv.append(dds.keep(%s, %s, x=%s))" % (pexpr(shape, s["p"]), g, lit)]
    assert a == "runtime", s
    svx = "sv" if inline_prev is None else "L.push(sv, %s)" % inline_prev
    if s["lay"] == "1" and inline_prev is not None:
        # the helper call sits on the first line of the statement (where the specification has the plain
        # call statement, which carries no literal), the literal on the second one
        return ["    sv.append(dds.keep(%s, %s, L.rt2(%s," % (pexpr(shape, s["p"]), g, svx),
                "                       %s)))" % lit]
    if s["lay"] == "1":
        return ["    sv.append(dds.keep(%s, %s, L.rt(%s, %s)))" % (pexpr(shape, s["p"]), g, lit, svx)]
    if s["lay"] == "2":
        return ["    sv.append(dds.keep(%s, %s," % (pexpr(shape, s["p"]), g),
                "                       L.rt(%s, %s)))" % (lit, svx)]
    # three-line layout: the literal sits on the third line of the call
    return ["    sv.append(dds.keep(%s, %s," % (pexpr(shape, s["p"]), g),
            "                       L.rt(",
            "                           %s, %s)))" % (lit, svx)]


def _fun_src(shape: Shape, f: str, prog: Dict[str, Any], names: Dict[str, str],
             local_imports: Optional[List[str]] = None) -> List[str]:
    args = arg_map(prog)
    lines = []
    if shape.dpath[f]:
        # realisation `deco`: the alias dds_function of the decorator
        lines.append("@dds.%s(%s)" % (shape.real.get("deco", "data_function"), pexpr(shape, shape.dpath[f])))
    par = shape.param[f]
    sig = {"none": "", "x": "x", "xdef": "x=%d" % (7 + prog.get("defv", {}).get(f, 0))}[par]
    ind = ""
    if f in shape.real.get("as_class", []):
        lines.append("class K_%s(object):" % f)
        lines.append("    def run(self):")
        ind = "    "
    else:
        lines.append("def %s(%s):" % (f, sig))
    start = len(lines)
    for li in (local_imports or []):
        lines.append("    " + li)
    lines.append("    L.hit(%r)" % f)
    lines.append("    b = %d  # c%d" % (prog["body"][f], prog["cos"][f]))
    if f in shape.untracked:
        # non-accepted code: its text is editable but its value is fixed (DdsEval.ExtVal)
        lines.append("    return [%r, 0, 99, [], []]" % f)
        return lines
    lines.append("    rv = [%s]" % ", ".join("L.enc(%r, %s)" % (v, pyname(shape, v)) for v in shape.reads[f]))
    if f in shape.real.get("as_class", []) and shape.real.get("class_split"):
        # two methods: the statements (calls, keeps, loads) sit in a second method reached through self
        lines.append("    return self._rest(b, rv)")
        lines.append("")
        lines.append("def _rest(self, b, rv):")
    lines.append("    sv = []")
    sts = shape.stmts[f]
    i = 0
    while i < len(sts):
        s = sts[i]
        if (shape.real.get("inline_call_args") and s["k"] == "call" and i + 1 < len(sts)
                and sts[i + 1]["k"] == "keep" and sts[i + 1]["a"] == "runtime"):
            # realisation: the plain call is written inside the argument expression of the next keep
            call_src = _stmt_lines(shape, f, i, s, args, names)[0].strip()[len("sv.append("):-1]
            lines += _stmt_lines(shape, f, i + 1, sts[i + 1], args, names, inline_prev=call_src)
            i += 2
            continue
        lines += _stmt_lines(shape, f, i, s, args, names)
        i += 1
    lines.append("    return [%r, b, %s, rv, sv]" % (f, "L.encx(x)" if par != "none" else "99"))
    return lines[:start] + [ind + l for l in lines[start:]]


def _filler(n: int, tag: str) -> List[str]:
    res: List[str] = []
    for i in range(n):
        res += ["", "", "unrelated_%s_%d = %d" % (tag, i, 40 + i), "", "",
                "def unrelated_fun_%s_%d():" % (tag, i),
                "    return unrelated_%s_%d + 1" % (tag, i)]
    return res


HEADER = ["import dataclasses", "import datetime", "import pathlib", "from pathlib import PurePosixPath", "import dds",
          "import _vlog as L"]
DCM_SRC = ["", "", "@dataclasses.dataclass(frozen=True)", "class DCm:", "    a: int", "    b: int"]


EXT_PKG = "vext"


def module_of(shape: Shape, layout: str) -> Dict[str, str]:
    """function -> dotted module name (functions of shape.untracked live in the non-accepted
    package vext whatever the layout)"""
    res = _module_of(shape, layout)
    for f in shape.untracked:
        res[f] = EXT_PKG + ".um"
    return res


def _module_of(shape: Shape, layout: str) -> Dict[str, str]:
    if layout == "one":
        return {f: PKG + ".m" for f in shape.funs}
    if layout == "moved":
        return {f: PKG + ".moved.m2" for f in shape.funs}
    if layout == "split":
        return {f: "%s.sub_%s.mod_%s" % (PKG, f, f) for f in shape.funs}
    if layout == "half":
        # the root alone in one module, everything else in another one (unless something refers
        # back to the root: a circular import is not what is being tested)
        back = any(s["g"] == shape.root for f in shape.funs for s in shape.stmts[f] if s["k"] in ("call", "ref", "keep", "eval"))
        if back:
            return {f: PKG + ".m" for f in shape.funs}
        side = set([shape.root2]) if shape.root2 else set()
        return {f: (PKG + ".top.mroot" if f == shape.root or f in side else PKG + ".lib.inner.mrest") for f in shape.funs}
    if layout == "deep6":
        return {f: "%s.a.b.c.d.e.mod_%s" % (PKG, f) for f in shape.funs}
    if layout == "deep":
        return {f: "%s.a.b.c.d.mod_%s" % (PKG, f) for f in shape.funs}
    raise ValueError(layout)


def _plain_ref(shape: Shape, funs: List[str], g: str, gm: str, lines: List[str], names: Dict[str, str]) -> None:
    """realisation `plain_refs`: a function passed as a higher-order reference is named plainly also
    under the module import forms (references through a module attribute are C01's known finding;
    the other properties' families must not trip over it)"""
    if shape.real.get("plain_refs") and any(s_["k"] == "ref" and s_["g"] == g for f_ in funs for s_ in shape.stmts[f_]):
        lines.append("from %s import %s as ref_%s" % (gm, g, g))
        names["ref:" + g] = "ref_" + g


def files_of(shape: Shape, prog: Dict[str, Any]) -> Dict[str, str]:
    """relative file name -> content, for the whole scratch root (package + _vlog)."""
    layout = prog["layout"]
    mods = module_of(shape, layout)
    unrel = prog.get("unrel", 0)
    ext = prog.get("ext", 0)
    files: Dict[str, str] = {}
    files["_vlog.py"] = (VLOG_SRC % {
        "ext": ext, "extbody": "" if ext == 0 else "  # ext edit %d" % ext}) + (
        "" if ext == 0 else "\n\ndef ext_added_%d():\n    return %d\n" % (ext, ext)) + "\n" + _vals_table(shape)
    by_mod: Dict[str, List[str]] = {}
    facade_exports: List[Tuple[str, str]] = []
    for f in shape.funs:
        by_mod.setdefault(mods[f], []).append(f)
    import_form = shape.real.get("import_form", "from")
    for (mod, funs) in by_mod.items():
        lines = list(HEADER)
        names: Dict[str, str] = {}
        needed = []
        for f in funs:
            for s in shape.stmts[f]:
                if s["k"] in ("call", "ref", "keep", "eval") and mods[s["g"]] != mod and s["g"] not in needed:
                    needed.append(s["g"])
        klass = shape.real.get("as_class", [])
        for g in shape.funs:
            names[g] = ("K_" + g) if g in klass else g
        kept_needed = set(s["g"] for f in funs for s in shape.stmts[f]
                          if s["k"] == "keep" and mods[s["g"]] != mod)
        for g in needed:
            gm = mods[g]
            if import_form in ("module", "module_as", "local") and g in kept_needed:
                lines.append("from %s import %s as kept_%s" % (gm, g, g))
                names["keep:" + g] = "kept_" + g
            if g in klass:
                lines.append("from %s import K_%s" % (gm, g))
            elif import_form == "facade":
                if g in kept_needed:
                    lines.append("from %s import %s" % (gm, g))
                else:
                    if "import vfacade.api as FA" not in lines:
                        lines.append("import vfacade.api as FA")
                    names[g] = "FA." + g
                    facade_exports.append((gm, g))
            elif import_form == "from":
                lines.append("from %s import %s" % (gm, g))
            elif import_form == "from_as":
                lines.append("from %s import %s as alias_%s" % (gm, g, g))
                names[g] = "alias_" + g
            elif import_form == "module":
                lines.append("import %s" % gm)
                names[g] = gm + "." + g
                _plain_ref(shape, funs, g, gm, lines, names)
            elif import_form == "local":
                # the module is imported by a statement inside the body of each function that calls into it
                # (a function passed as a higher-order reference is named plainly: references through a
                # module attribute are the business of the module / module_as forms)
                names[g] = gm + "." + g
                if any(s_["k"] == "ref" and s_["g"] == g for f_ in funs for s_ in shape.stmts[f_]):
                    lines.append("from %s import %s as ref_%s" % (gm, g, g))
                    names["ref:" + g] = "ref_" + g
            elif import_form == "module_as":
                lines.append("import %s as m_%s" % (gm, g))
                names[g] = "m_%s.%s" % (g, g)
                _plain_ref(shape, funs, g, gm, lines, names)
            else:
                raise ValueError(import_form)
        lines += _filler(unrel, "top")
        if shape.real.get("path_vars"):
            used = [s_["p"] for f_ in funs for s_ in shape.stmts[f_] if s_["k"] in ("keep", "load")] + \
                   [shape.dpath[f_] for f_ in funs if shape.dpath[f_]]
            lines += path_var_defs(shape, used)
        # variables read by the functions of this module (one line each: stable line count)
        vs = sorted(set(v for f in funs for v in shape.reads[f]))
        if any(shape.vtype[v] == "dataclass_local" for v in vs):
            lines += DCM_SRC + ["", ""]
        for v in vs:
            lines.append("%s = %s" % (pyname(shape, v), VAL_SRC[shape.vtype[v]][prog["vval"][v]]))
        order = list(funs)
        if unrel % 2 == 1:
            order = list(reversed(order))   # "reorder definitions"
        for f in order:
            loc = None
            if import_form == "local":
                loc = ["import dds"] + ["import %s" % mods[g] for g in needed
                                        if g not in klass and any(s_["g"] == g and s_["k"] in ("call", "eval") for s_ in shape.stmts[f])]
            lines += ["", ""] + _fun_src(shape, f, prog, names, loc)
            if unrel:
                lines += _filler(1, "after_" + f)
        rel = mod.replace(".", "/") + ".py"
        files[rel] = "\n".join(lines) + "\n"
        if facade_exports:
            # a NON-accepted facade that only re-exports accepted functions (imported lazily to stay acyclic)
            files["vfacade/__init__.py"] = ""
            body = ["# non-accepted facade: only re-exports functions defined in accepted modules"]
            body += ["from %s import %s" % (gm, g) for (gm, g) in sorted(set(facade_exports))]
            files["vfacade/api.py"] = "\n".join(body) + "\n"
        # package __init__ files
        parts = mod.split(".")[:-1]
        for i in range(1, len(parts) + 1):
            files.setdefault("/".join(parts[:i]) + "/__init__.py", "")
    return files


def write_tree(root: str, files: Dict[str, str]) -> bool:
    """Write the files below root; returns True when any *function text* file changed
    (anything but variable-value lines), i.e. when a fresh process is required."""
    changed = False
    for (rel, content) in files.items():
        p = os.path.join(root, rel)
        os.makedirs(os.path.dirname(p), exist_ok=True)
        old = None
        if os.path.exists(p):
            with open(p) as f:
                old = f.read()
        if old != content:
            with open(p, "w") as f:
                f.write(content)
            changed = True
    # remove stale generated modules (layout change)
    for (dp, dn, fn) in os.walk(os.path.join(root, PKG)):
        for n in fn:
            rel = os.path.relpath(os.path.join(dp, n), root)
            if rel.endswith(".py") and rel not in files:
                os.remove(os.path.join(dp, n))
                changed = True
    return changed


BUILTIN_NAMES = ["max", "format", "input", "type", "id", "filter", "min", "dir"]


def pyname(shape: Shape, v: str) -> str:
    """Python identifier of the abstract variable v (realisation `var_names`: "builtin" gives the
    variables names that shadow Python builtins -- they are ordinary module variables all the same)."""
    if shape.real.get("var_names") == "funs":
        # (split layout only) the variable carries the name of a FUNCTION that lives in another module and
        # is called from elsewhere: names are per module, what one module calls a function another may
        # call a variable
        readers = [f for f in shape.funs if v in shape.reads[f]]
        mentioned = set(s_["g"] for f in shape.funs for s_ in shape.stmts[f] if s_["k"] in ("call", "ref", "keep"))
        taken = set()
        for w in shape.vars:
            if w == v:
                break
            taken.add(pyname(shape, w))
        for g in shape.funs:
            if (g in mentioned and g not in readers and g not in taken
                    and not any(s_.get("g") == g for f in readers for s_ in shape.stmts[f])):
                return g
        return v
    if shape.real.get("var_names") == "builtin":
        return BUILTIN_NAMES[shape.vars.index(v) % len(BUILTIN_NAMES)] + ("" if shape.vars.index(v) < len(BUILTIN_NAMES) else "_%d" % shape.vars.index(v))
    return v


def var_value_src(shape: Shape, v: str, ver: int) -> str:
    return VAL_SRC[shape.vtype[v]][ver]


def var_inplace_stmt(shape: Shape, v: str, ver: int):
    """For variable types whose in-process edit is an in-place mutation: the statement, else None."""
    if shape.vtype[v] == "tuplelist":
        return "%s[1][:] = %s[1]" % (pyname(shape, v), VAL_SRC["tuplelist"][ver])
    return None
