"""
Specification -> code: replay TLC-generated histories of DdsEval on the real library.

A history is a list of macro records (edit / revert / restart / eval) produced by the
specification; every eval record carries the expected observables.  The history is cut
into *segments* (one per interpreter process, following the specification's pid), each
segment runs in a forked worker, and the observed values are returned next to the expected
ones.  Oracles (one per property) live in harness/oracles.py.
"""
import json
import os
import shutil
from typing import Any, Dict, List, Optional, Tuple

from . import materialize as mat
from .shapes import Shape
from .worker import run_forked, run_pristine


STAGE_NAMES = ["analysis", "store_inspect", "eval", "store_commit", "path_commit"]


def store_conf(kind: str, root: str) -> Optional[Dict[str, Any]]:
    if kind == "local":
        return {"kind": "local", "internal_dir": os.path.join(root, "store", "internal"),
                "data_dir": os.path.join(root, "store", "data")}
    if kind == "local+lru":
        return {"kind": "local", "internal_dir": os.path.join(root, "store", "internal"),
                "data_dir": os.path.join(root, "store", "data"), "cache": 2}
    if kind == "memory":
        return {"kind": "memory"}
    if kind == "memory+lru":
        return {"kind": "memory", "cache": 2}
    if kind == "noop":
        return {"kind": "noop"}
    if kind == "dbfs":
        return {"kind": "dbfs", "internal_dir": "dbfs:/internal", "data_dir": "dbfs:/data",
                "fake_root": os.path.join(root, "dbfs")}
    raise ValueError(kind)


def build_segments(shape: Shape, hist: List[Dict[str, Any]], root: str, store_kind: str,
                   mode: str = "dds", loads_after_eval: bool = False,
                   options: Optional[Dict[str, Any]] = None,
                   eval_kwargs: Optional[Dict[str, Any]] = None,
                   accept: Optional[List[str]] = None) -> List[Dict[str, Any]]:
    """Cut the history into per-process segments.  Each step remembers the index of the
    history record it realises (`h`)."""
    segs: List[Dict[str, Any]] = []
    cur: Optional[Dict[str, Any]] = None
    cur_pid = None
    last_prog = None          # program state the running process has been told about
    pending_var_edits: List[Tuple[str, int]] = []
    fail_state: Dict[str, str] = {}
    for (h, rec) in enumerate(hist):
        op = rec["op"]
        if op in ("edit", "revert", "fail", "unfail"):
            continue
        if op == "restart":
            cur_pid = None
            continue
        if op != "eval":
            raise ValueError(op)
        prog = rec["prog"]
        mods = mat.module_of(shape, prog["layout"])
        files = mat.files_of(shape, prog)
        if cur is None or rec["pid"] != cur_pid:
            cur = {"root_dir": root, "mode": mode, "files": files,
                   "modules": sorted(set(mods.values())),
                   "store": store_conf(store_kind, root) if mode == "dds" else None,
                   "options": options, "steps": [], "accept": accept or ["vpkg"]}
            if shape.real.get("accept_form"):
                cur["accept_form"] = shape.real["accept_form"]
            if shape.real.get("main_script"):
                assert prog["layout"] == "one", "script placement has a single module"
                cur["main_script"] = mods[shape.root]
            segs.append(cur)
            cur_pid = rec["pid"]
            fail_state = {}
        else:
            # same process: only variable values may differ (the specification restarts on
            # every textual edit in package placement)
            assert last_prog is not None
            for v in shape.vars:
                if prog["vval"][v] != last_prog["vval"][v]:
                    cur["steps"].append({"op": "setvar", "var": mat.pyname(shape, v), "h": h,
                                         "src": mat.var_value_src(shape, v, prog["vval"][v]),
                                         "inplace": mat.var_inplace_stmt(shape, v, prog["vval"][v]),
                                         "files": files})
        fails = {f: c for (f, c) in prog.get("fail", {}).items() if c != "no"}
        if fails != fail_state:
            cur["steps"].append({"op": "fail", "fail": fails, "h": h})
            fail_state = fails
        rootf = rec.get("root", shape.root)
        rpath = [r["path"] for r in shape.roots if r["f"] == rootf][0]
        st = {"op": "eval", "h": h, "style": rec["style"], "root": rootf,
              "module": mods[rootf], "root_path": rpath}
        if rec.get("stages", 5) < 5:
            st["kwargs"] = {"dds_stages": STAGE_NAMES[: rec["stages"]]}
        rspec = [r for r in shape.roots if r["f"] == rootf][0]
        if rspec.get("arg"):
            st["arg_versions"] = [prog["rarg"][rec.get("ri", 1) - 1]]
        if eval_kwargs and rec["style"] == "eval":
            st["kwargs"] = eval_kwargs
        cur["steps"].append(st)
        last_prog = prog
    return segs


_SEG_COUNTER = [0]


def _write_files(root: str, files: Optional[Dict[str, str]]) -> None:
    if files is not None:
        mat.write_tree(root, files)


def replay(shape: Shape, hist: List[Dict[str, Any]], root: str, store_kind: str,
           mode: str = "dds", loads_after_eval: bool = False, pristine_env: Optional[Dict[str, Any]] = None,
           options: Optional[Dict[str, Any]] = None,
           eval_kwargs: Optional[Dict[str, Any]] = None,
           accept: Optional[List[str]] = None) -> Dict[int, Dict[str, Any]]:
    """Returns {history index -> observation} for every eval record (plus 'loads')."""
    os.makedirs(root, exist_ok=True)
    obs: Dict[int, Dict[str, Any]] = {}
    if loads_after_eval:
        return _replay_with_loads(shape, hist, root, store_kind, mode, options, eval_kwargs)
    segs = build_segments(shape, hist, root, store_kind, mode, False, options, eval_kwargs, accept)
    for seg in segs:
        _run_one(seg, root, obs, pristine_env)
    return obs


def _run_one(seg: Dict[str, Any], root: str, obs: Dict[int, Dict[str, Any]],
             pristine_env: Optional[Dict[str, Any]]) -> None:
    _write_files(root, seg.get("files"))
    # setvar steps rewrite the module files from inside the worker (mtime changes while the
    # process lives, as when a user edits a constant and re-runs a notebook cell)
    seg2 = dict(seg)
    seg2.pop("files", None)
    if pristine_env is not None:
        hs = pristine_env.get("hashseed")
        if hs == "vary":
            _SEG_COUNTER[0] += 1
            hs = str(1 + (_SEG_COUNTER[0] * 7919) % 100000)
        res = run_pristine(seg2, hashseed=hs, cwd=pristine_env.get("cwd"))
    else:
        res = run_forked(seg2)
    if res.get("fatal"):
        for st in seg["steps"]:
            obs.setdefault(st["h"], {})["fatal"] = res["fatal"]
        return
    for (st, o) in zip(seg["steps"], res["steps"]):
        if st["op"] == "eval":
            obs[st["h"]] = o
        elif st["op"] == "load":
            obs.setdefault(st["h"], {})["loads"] = o["loads"]


def _replay_with_loads(shape, hist, root, store_kind, mode, options, eval_kwargs):
    """C04 variant: every evaluation runs in its own process, followed by a second process
    that loads every committed path."""
    obs: Dict[int, Dict[str, Any]] = {}
    hist2 = []
    # force a process boundary after every eval: realised by giving every eval its own pid
    pid = 0
    for rec in hist:
        if rec["op"] == "eval":
            pid += 1
            rec = dict(rec)
            rec["pid"] = pid
        hist2.append(rec)
    segs = build_segments(shape, hist2, root, store_kind, mode, False, options, eval_kwargs)
    for seg in segs:
        _run_one(seg, root, obs, None)
        for st in seg["steps"]:
            if st["op"] != "eval":
                continue
            rec = hist[st["h"]]
            paths = sorted(p for (p, _) in rec.get("served", []))
            if paths:
                sc = store_conf(store_kind, root) or {}
                ddir = sc.get("data_dir") if sc.get("kind") == "local" else (
                    os.path.join(sc["fake_root"], "data") if sc.get("kind") == "dbfs" else None)
                lseg = {"root_dir": root, "mode": mode, "modules": [], "vlog": False,
                        "store": store_conf(store_kind, root), "record": False,
                        "steps": [{"op": "load", "paths": paths, "h": st["h"], "data_dir": ddir}]}
                res = run_forked(lseg)
                if res.get("fatal"):
                    obs.setdefault(st["h"], {})["loads_fatal"] = res["fatal"]
                else:
                    obs.setdefault(st["h"], {})["loads"] = res["steps"][0]["loads"]
                    obs.setdefault(st["h"], {})["files"] = res["steps"][0].get("files")
    return obs


def cleanup(root: str) -> None:
    shutil.rmtree(root, ignore_errors=True)
