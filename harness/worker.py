"""
Worker: runs a *segment* (the part of a history that lives in one interpreter process)
against the real library (or against the dds-free stub) and returns what it observed.

Two ways to get a process: `run_forked(seg)` forks the calling (warm) process; `run_pristine`
starts a fresh interpreter (chosen PYTHONHASHSEED, cwd, ...).  Both execute `run_segment`.
"""
import importlib
import json
import os
import pickle
import subprocess
import sys
import traceback
from typing import Any, Dict, List, Optional

from .common import REPO, PY, VERIF


def _norm(v: Any) -> Any:
    """JSON-friendly normal form of a returned value (tuples -> lists)."""
    if isinstance(v, (list, tuple)):
        return [_norm(x) for x in v]
    if isinstance(v, dict):
        return {str(k): _norm(x) for (k, x) in v.items()}
    if isinstance(v, (str, int, float, bool)) or v is None:
        return v
    if isinstance(v, bytes):
        return {"__bytes__": v.hex()}
    return {"__repr__": repr(v), "__type__": type(v).__name__}


def _exc_info(e: BaseException) -> Dict[str, Any]:
    code = getattr(e, "error_code", None)
    return {
        "type": type(e).__name__,
        "dds": type(e).__name__ == "DDSException",
        "code": None if code is None else getattr(code, "name", str(code)),
        "msg": str(e)[:400],
        "id": id(e),
    }


# ----------------------------------------------------------------------------------------
# dds-free stub (reference run of C01)
# ----------------------------------------------------------------------------------------


def _install_stub(state_file: str) -> Any:
    import types

    m = types.ModuleType("dds")
    state: Dict[str, Any] = {}
    if os.path.exists(state_file):
        with open(state_file) as f:
            state.update(json.load(f))

    def _save() -> None:
        with open(state_file, "w") as f:
            json.dump(state, f)

    def keep(path, fun, *a, **k):
        v = fun(*a, **k)
        state[str(path)] = _norm(v)
        _save()
        return v

    def load(path):
        if str(path) not in state:
            raise KeyError("stub: path %s never kept" % path)
        return state[str(path)]

    def eval_(fun, *a, **k):
        k = {n: x for (n, x) in k.items() if not n.startswith("dds_")}
        return fun(*a, **k)

    def data_function(path):
        def deco(f):
            import functools

            @functools.wraps(f)
            def w(*a, **k):
                return keep(path, f, *a, **k)
            return w
        return deco

    m.keep = keep
    m.load = load
    m.eval = eval_
    m.data_function = data_function
    m.dds_function = data_function
    m.accept_module = lambda x: None
    m.set_store = lambda *a, **k: None
    m.set_option = lambda *a, **k: None
    m.__stub__ = True
    sys.modules["dds"] = m
    return m


# ----------------------------------------------------------------------------------------
# Recording store
# ----------------------------------------------------------------------------------------


def make_recording_store(inner: Any, ops: List[Any]) -> Any:
    from dds.store import Store

    class RecordingStore(Store):
        def __init__(self):
            self.inner = inner

        def has_blob(self, key):
            r = inner.has_blob(key)
            ops.append(["has", key, bool(r)])
            return r

        def fetch_blob(self, key):
            r = inner.fetch_blob(key)
            ops.append(["fetch", key, _norm(r)])
            return r

        def store_blob(self, key, blob, codec=None):
            ops.append(["store", key, _norm(blob)])
            return inner.store_blob(key, blob, codec)

        def sync_paths(self, paths):
            ops.append(["sync", [[str(p), k] for (p, k) in paths.items()]])
            return inner.sync_paths(paths)

        def fetch_paths(self, paths):
            try:
                r = inner.fetch_paths(paths)
            except BaseException as e:
                ops.append(["fetch_paths", [str(p) for p in paths], {"exc": _exc_info(e)}])
                raise
            ops.append(["fetch_paths", [str(p) for p in paths], [[str(p), k] for (p, k) in r.items()]])
            return r

        def codec_registry(self):
            return inner.codec_registry()

        def __repr__(self):
            return "RecordingStore(%r)" % (inner,)

    return RecordingStore()


def make_store(conf: Dict[str, Any]) -> Any:
    """Builds the store under test from its configuration (through the public set_store when
    possible) and returns the store object."""
    import dds
    import dds._api as api

    kind = conf["kind"]
    if kind == "memory":
        dds.set_store("memory", cache_objects=conf.get("cache"))
    elif kind == "noop":
        dds.set_store("noop")
    elif kind == "local":
        dds.set_store("local", internal_dir=conf["internal_dir"], data_dir=conf["data_dir"],
                      cache_objects=conf.get("cache"))
    elif kind == "dbfs":
        from .fakedbutils import FakeDBUtils
        dds.set_store("dbfs", internal_dir=conf["internal_dir"], data_dir=conf["data_dir"],
                      dbutils=FakeDBUtils(conf["fake_root"]), commit_type=conf.get("commit_type"),
                      cache_objects=conf.get("cache"))
    else:
        raise ValueError(kind)
    return api._store_var


# ----------------------------------------------------------------------------------------
# Segment execution
# ----------------------------------------------------------------------------------------


def run_segment(seg: Dict[str, Any]) -> Dict[str, Any]:
    out: Dict[str, Any] = {"steps": [], "fatal": None}
    try:
        _run_segment(seg, out)
    except BaseException as e:  # machinery failure inside the worker
        out["fatal"] = {"exc": _exc_info(e), "tb": traceback.format_exc()[-2000:]}
    return out


def _run_segment(seg: Dict[str, Any], out: Dict[str, Any]) -> None:
    """A failure of the set-up (configuring the store, accepting modules, importing the program: all
    valid uses of the public API) in "dds" mode is the observation of every step of the segment -
    the pipeline cannot run - and not a failure of the machinery."""
    try:
        ctx = _setup_segment(seg)
    except BaseException as e:
        if seg.get("mode", "dds") != "dds" or not any(st["op"] in ("eval", "load") for st in seg["steps"]):
            raise
        info = _exc_info(e)
        info["setup"] = True
        info["injected"] = False
        for st in seg["steps"]:
            if st["op"] == "load":
                out["steps"].append({"op": "load", "loads": {p: {"err": info} for p in st["paths"]}})
            else:
                out["steps"].append({"op": st["op"], "result": None, "err": info if st["op"] == "eval" else None,
                                     "log": [], "ops": [], "ctx_clean": True})
        return
    _run_steps(seg, out, *ctx)


def _setup_segment(seg: Dict[str, Any]):
    sys.dont_write_bytecode = True
    root = seg["root_dir"]
    if root not in sys.path:
        sys.path.insert(0, root)
    if seg.get("cwd"):
        os.chdir(seg["cwd"])
    mode = seg.get("mode", "dds")
    ops: List[Any] = []
    if mode == "stub":
        dds = _install_stub(os.path.join(root, "stub_state.json"))
    else:
        import dds  # noqa
        import dds._api as api
        for (k, v) in (seg.get("options") or {}).items():
            dds.set_option(k, v)
        if seg.get("store") is not None:
            inner = make_store(seg["store"])
            if seg.get("record", True):
                api._store_var = make_recording_store(inner, ops)
        for m in seg.get("accept", ["vpkg"]):
            form = seg.get("accept_form", "name")
            if form == "object":
                # dds.accept_module(<module object>): imports the package (documented)
                try:
                    mobj = importlib.import_module(m)
                except ImportError:
                    mobj = m
                dds.accept_module(mobj)
            elif form == "whitelist":
                import warnings
                with warnings.catch_warnings():
                    warnings.simplefilter("ignore")
                    dds.whitelist_module(m)         # deprecated alias
            else:
                dds.accept_module(m)
    importlib.invalidate_caches()
    mods = {}
    for mn in seg.get("modules", []):
        if mn == seg.get("main_script"):
            # "script" placement: the file is executed as the module __main__ (what `python file.py` does)
            import types
            path = os.path.join(root, mn.replace(".", "/") + ".py")
            mod = types.ModuleType("__main__")
            mod.__file__ = path
            sys.modules["__main__"] = mod
            with open(path) as f:
                exec(compile(f.read(), path, "exec"), mod.__dict__)
            mods[mn] = mod
        else:
            mods[mn] = importlib.import_module(mn)
    L = importlib.import_module("_vlog") if seg.get("vlog", True) else None
    return (root, mode, ops, dds, mods, L)


def _run_steps(seg: Dict[str, Any], out: Dict[str, Any], root, mode, ops, dds, mods, L) -> None:
    for st in seg["steps"]:
        op = st["op"]
        obs: Dict[str, Any] = {"op": op}
        if op == "setvar":
            if st.get("files"):
                from . import materialize as _mat
                _mat.write_tree(root, st["files"])
            import types as _types
            for m in mods.values():
                # (a module may import a FUNCTION that carries the name another module gives to a variable)
                if st["var"] in m.__dict__ and not isinstance(m.__dict__[st["var"]], (_types.FunctionType, type, _types.ModuleType)):
                    if st.get("inplace"):
                        exec(st["inplace"], m.__dict__)      # same object, mutated
                    else:
                        setattr(m, st["var"], eval(st["src"], m.__dict__))
        elif op == "fail":
            L.FAIL.clear()
            for (name, cls) in st["fail"].items():
                L.FAIL[name] = _make_exc(cls, name)
        elif op == "eval":
            if L is not None:
                del L.LOG[:]
            del ops[:]
            fun = getattr(mods[st["module"]], st["root"])
            kwargs = dict(st.get("kwargs") or {})
            if "dds_stages" in kwargs:
                # "@NAME" denotes the enum member dds.ProcessingStage.NAME
                kwargs["dds_stages"] = [getattr(dds.ProcessingStage, x[1:]) if isinstance(x, str) and x.startswith("@") else x
                                        for x in kwargs["dds_stages"]]
            args = list(st.get("args") or [])
            if st.get("arg_versions"):
                args = [L.ARG_VALS[v] for v in st["arg_versions"]]
            gfile = None
            if kwargs.get("dds_export_graph") is True:
                gfile = os.path.join(root, "graph_%d.dot" % len(out["steps"]))
                kwargs["dds_export_graph"] = gfile
            try:
                from .common import Watchdog
                with Watchdog(int(os.environ.get("VERIF_STEP_TIMEOUT", "120"))):
                    if st["style"] == "direct":
                        r = fun(*args, **kwargs)
                    elif st["style"] == "eval":
                        r = dds.eval(fun, *args, **kwargs)
                    elif st["style"] == "keep":
                        r = dds.keep(st["root_path"], fun, *args, **kwargs)
                    else:
                        raise ValueError(st["style"])
                obs["result"] = _norm(r)
                obs["err"] = None
            except BaseException as e:
                obs["result"] = None
                obs["err"] = _exc_info(e)
                if L is not None:
                    obs["err"]["injected"] = any(e is x for x in L.FAIL.values())
            obs["log"] = list(L.LOG) if L is not None else []
            obs["ops"] = list(ops)
            if gfile is not None:
                obs["graph"] = _parse_dot(gfile)
            if mode != "stub":
                import dds._api as api
                obs["ctx_clean"] = api._eval_ctx is None
        elif op == "load":
            res = {}
            for p in st["paths"]:
                try:
                    from .common import Watchdog
                    with Watchdog(60):
                        res[p] = {"value": _norm(dds.load(p))}
                except BaseException as e:
                    res[p] = {"err": _exc_info(e)}
            obs["loads"] = res
            if st.get("data_dir"):
                # the file found under the data directory (results of the generated programs are lists: pickle)
                files = {}
                for p in st["paths"]:
                    fp = os.path.join(st["data_dir"], p.lstrip("/"))
                    try:
                        with open(fp, "rb") as fh:
                            files[p] = {"value": _norm(pickle.load(fh))}
                    except BaseException as e:
                        files[p] = {"err": _exc_info(e)}
                obs["files"] = files
        else:
            raise ValueError(op)
        out["steps"].append(obs)


def _parse_dot(path: str) -> Dict[str, Any]:
    if not os.path.exists(path):
        return {"missing": True}
    import pydotplus
    g = pydotplus.graph_from_dot_file(path)

    def nm(x: str) -> str:
        return x.strip('"')
    nodes = sorted(nm(n.get_name()) for n in g.get_nodes() if nm(n.get_name()) not in ("node", "edge", "graph") and nm(n.get_name()).replace("\\n", "").strip())
    edges = sorted([nm(e.get_source()), nm(e.get_destination()), nm(e.get_style() or "solid")] for e in g.get_edges())
    return {"nodes": nodes, "edges": edges}


def _make_exc(cls: str, name: str) -> BaseException:
    if cls == "Exception":
        return Exception("injected failure in " + name)
    if cls == "ValueError":
        return ValueError("injected failure in " + name)
    if cls == "KeyError":
        return KeyError("injected failure in " + name)
    if cls == "KeyboardInterrupt":
        return KeyboardInterrupt("injected failure in " + name)
    if cls == "SystemExit":
        return SystemExit("injected failure in " + name)
    raise ValueError(cls)


def run_forked(seg: Dict[str, Any], timeout: int = 120) -> Dict[str, Any]:
    (r, w) = os.pipe()
    pid = os.fork()
    if pid == 0:
        code = 0
        try:
            os.close(r)
            res = run_segment(seg)
            data = json.dumps(res).encode("utf-8")
            with os.fdopen(w, "wb") as f:
                f.write(data)
        except BaseException:
            code = 3
            try:
                traceback.print_exc()
            except BaseException:
                pass
        finally:
            from .common import cov_save
            cov_save()
            os._exit(code)
    os.close(w)
    chunks = []
    with os.fdopen(r, "rb") as f:
        while True:
            b = f.read(1 << 16)
            if not b:
                break
            chunks.append(b)
    (_, status) = os.waitpid(pid, 0)
    data = b"".join(chunks)
    if not data:
        return {"steps": [], "fatal": {"exc": {"type": "WorkerDied", "msg": "status %s" % status}}}
    return json.loads(data.decode("utf-8"))


def run_pristine(seg: Dict[str, Any], hashseed: Optional[str] = None, cwd: Optional[str] = None,
                 timeout: int = 300, env_extra: Optional[Dict[str, str]] = None) -> Dict[str, Any]:
    env = dict(os.environ)
    env["PYTHONPATH"] = REPO + os.pathsep + VERIF
    env["PYTHONDONTWRITEBYTECODE"] = "1"
    if hashseed is not None:
        env["PYTHONHASHSEED"] = str(hashseed)
    if env_extra:
        env.update(env_extra)
    p = subprocess.run([PY, "-m", "harness.worker"], input=json.dumps(seg).encode("utf-8"),
                       stdout=subprocess.PIPE, stderr=subprocess.PIPE, cwd=cwd or VERIF, env=env,
                       timeout=timeout)
    if p.returncode != 0:
        return {"steps": [], "fatal": {"exc": {"type": "WorkerDied", "msg": p.stderr.decode()[-1500:]}}}
    return json.loads(p.stdout.decode("utf-8").split("\n===RESULT===\n")[-1])


if __name__ == "__main__":
    seg_ = json.loads(sys.stdin.read())
    sys.path.insert(0, REPO)
    res_ = run_segment(seg_)
    sys.stdout.write("\n===RESULT===\n" + json.dumps(res_))
