"""
C19 - the DBFS store honours its commit type and keeps legacy blobs readable.
spec/StoreDbfs.tla gives behaviours (keep / load / planted legacy blobs) per commit type and
the expected answers; replay through dds.set_store("dbfs", ..., commit_type=<documented
spelling>) against the in-process fake of dbutils.fs, files inspected after every operation.
The store contract of C08 (StoreModel) is also replayed on DBFSStore(fake).
"""
import json
import multiprocessing
import os
import pickle
import shutil
import sys
from typing import Any, Dict, List, Optional, Tuple

from . import common, evalfam, storedrv, storeprops
from .common import MachineryError, Report, tlax

KEYS = {"kS": "str", "kB": "bytes", "kN": "pickle", "kO": "pickle"}
PATHS = ["/t/s", "/.h", "/h"]
COMMITS = {"full": ["full", "FULL", "Full"], "links_only": ["links_only", "LINKS_ONLY"], "none": ["none", "None"]}

VALUE_SETS = [
    {"kS": "text ü", "kB": b"\x00\xffraw", "kN": None, "kO": {"k": [1, 2.5, "ü"]}},
    # results whose stored form is zero bytes long
    {"kS": "", "kB": b"", "kN": None, "kO": []},
    {"kS": "line1\r\nline2\r" * 2000, "kB": bytes(range(256)) * 300, "kN": None, "kO": {"k": list(range(3000))}},
]
VALUES = VALUE_SETS[0]


def modsrc(vi: int) -> str:
    v = VALUE_SETS[vi]
    lines = ["import dds", "import _vcount as C", ""]
    for k in ("kS", "kB", "kN", "kO"):
        lines += ["", "def %s():" % k, "    C.hit(%r)" % k, "    return %r" % (v[k],), ""]
    return "\n".join(lines)


MODSRC = modsrc(0)


def conf(commit: str, max_ops: int, gen: bool, commits=(), keys=None, paths=None) -> str:
    """commit: commit type of the first store handle; commits: the types a later set_store may switch to"""
    keys = list(keys or KEYS)
    return "\n".join(["---- MODULE DbfsConf ----", "EXTENDS TLC",
                      "Commit == %s" % tlax(commit), "Commits == %s" % (tlax(set(commits)) if commits else "{}"),
                      "Keys == %s" % tlax(set(keys)), "KindOf == %s" % tlax({k: KEYS[k] for k in keys}),
                      "Paths == %s" % tlax(set(paths or PATHS)), "MaxOps == %d" % max_ops, "GenMode == %s" % tlax(gen), "====", ""])


def _raw_bytes(k: str, vi: int = 0) -> bytes:
    v = VALUE_SETS[vi][k]
    if KEYS[k] == "str":
        return v.encode("utf-8")
    if KEYS[k] == "bytes":
        return v
    return pickle.dumps(v)


def _client(args) -> Dict[str, Any]:
    (base, commit_spelling, hist) = args[:3]
    vi = args[3] if len(args) > 3 else 0
    VALUES = VALUE_SETS[vi]
    import importlib
    import dds
    import dds._api as api
    from dds.store import MemoryStore
    from .fakedbutils import FakeDBUtils
    from .worker import make_recording_store
    if base not in sys.path:
        sys.path.insert(0, base)
    importlib.invalidate_caches()
    dds.accept_module("vdbfs")
    mod = importlib.import_module("vdbfs.m")
    C = importlib.import_module("_vcount")
    # signatures of the four functions (independent of the store)
    sig: Dict[str, str] = {}
    for k in KEYS:
        ops: List[Any] = []
        api._store_var = make_recording_store(MemoryStore(), ops)
        dds.keep("/sigprobe", getattr(mod, k))
        sig[k] = dict([o for o in ops if o[0] == "sync"][-1][1])["/sigprobe"]
    fake_root = os.path.join(base, "dbfs")
    out: List[Dict[str, Any]] = []
    nconf = [0]

    def configure(spelling: str) -> None:
        dds.set_store("dbfs", internal_dir="dbfs:/int", data_dir="dbfs:/data", dbutils=FakeDBUtils(fake_root),
                      commit_type=spelling)
    try:
        configure(commit_spelling)
    except BaseException as e:
        return {"setup_error": "%s: %s" % (type(e).__name__, str(e)[:160]), "answers": []}

    def files(q: str) -> Dict[str, Any]:
        rel = q.lstrip("/")
        cp = os.path.join(fake_root, "data", rel)
        rp = os.path.join(fake_root, "data", "_dds_meta", rel)
        res: Dict[str, Any] = {"copy": None, "record": None}
        if os.path.isfile(cp):
            with open(cp, "rb") as f:
                res["copy"] = f.read().hex()
        if os.path.isfile(rp):
            try:
                with open(rp) as f:
                    res["record"] = json.load(f).get("redirection_key")
            except Exception:
                res["record"] = "unparsable"
        return res
    rev = {v: k for (k, v) in sig.items()}
    for op in hist:
        a: Dict[str, Any] = {}
        del C.LOG[:]
        try:
            common.arm(60)
            if op["op"] == "keep":
                r = dds.keep(op["q"], getattr(mod, op["k"]))
                ok = type(r) is type(VALUES[op["k"]]) and r == VALUES[op["k"]]
                a = {"executed": bool(C.LOG), "value": ["V", op["k"]] if ok else ["WRONG", repr(r)[:80]]}
            elif op["op"] == "load":
                try:
                    r = dds.load(op["q"])
                    which = [k for (k, v) in VALUES.items() if type(r) is type(v) and r == v]
                    a = {"executed": False, "value": ["V", which[0]] if which else ["WRONG", repr(r)[:80]]}
                except dds.DDSException:
                    a = {"executed": False, "value": ["missing"]}
                except Exception as e:
                    # the fake raises a plain Exception (as the JVM bridge does) when the record is absent
                    a = {"executed": False, "value": ["missing"] if "FileNotFound" in str(e) else ["EXC", type(e).__name__, str(e)[:120]]}
            elif op["op"] == "config":
                # a new store handle over the same directories, another commit type (documented spellings in turn)
                sp = COMMITS[op["k"]]
                nconf[0] += 1
                configure(sp[nconf[0] % len(sp)])
                a = {"executed": False, "value": ["ok"]}
            elif op["op"] == "plant":
                k = op["k"]
                legacy = {"str": "dbfs.string", "bytes": "dbfs.bytes", "pickle": "dbfs.pickle"}[KEYS[k]]
                bp = os.path.join(fake_root, "int", "blobs", sig[k])
                os.makedirs(os.path.dirname(bp), exist_ok=True)
                with open(bp, "wb") as f:
                    f.write(_raw_bytes(k, vi))
                with open(bp + ".meta", "w") as f:
                    json.dump({"protocol": legacy, "timestamp_millis": 1}, f)
                a = {"executed": False, "value": ["ok"]}
        except BaseException as e:
            a = {"executed": bool(C.LOG), "value": ["EXC", type(e).__name__, str(e)[:160]]}
        a["files"] = {q: files(q) for q in PATHS}
        a["blob_hex"] = {k: _raw_bytes(k, vi).hex() for k in KEYS}
        a["sig"] = sig
        out.append(a)
    common.disarm()
    return {"answers": out, "setup_error": None}


def _replay(a) -> Dict[str, Any]:
    (idx, commit_spelling, hist, base0) = a[:4]
    vi = a[4] if len(a) > 4 else idx % len(VALUE_SETS)
    base = os.path.join(base0, "d%d" % idx)
    os.makedirs(os.path.join(base, "vdbfs"))
    open(os.path.join(base, "vdbfs", "__init__.py"), "w").close()
    open(os.path.join(base, "vdbfs", "m.py"), "w").write(modsrc(vi))
    open(os.path.join(base, "_vcount.py"), "w").write("LOG = []\n\n\ndef hit(n):\n    LOG.append(n)\n")
    try:
        (r, w) = os.pipe()
        pid = os.fork()
        if pid == 0:
            try:
                os.close(r)
                res = _client((base, commit_spelling, hist, vi))
                with os.fdopen(w, "wb") as f:
                    f.write(json.dumps(res).encode())
            finally:
                common.cov_save()
                os._exit(0)
        os.close(w)
        with os.fdopen(r, "rb") as f:
            data = f.read()
        os.waitpid(pid, 0)
        if not data:
            return {"idx": idx, "fatal": "client died"}
        res = json.loads(data.decode())
        res["idx"] = idx
        res["fatal"] = None
        return res
    finally:
        shutil.rmtree(base, ignore_errors=True)


def run_c19(tier: str) -> int:
    rep = Report("C19", tier)
    evalfam.import_dds()
    states = trans = 0
    base = common.sub_scratch("dbfs")
    tasks = []
    # the mixed family: the store is configured again with another commit type over the same directories
    dm = common.stage_spec({"DbfsConf.tla": conf("links_only", 1000000, False, commits=list(COMMITS), keys=["kS", "kO"], paths=["/t/s", "/.h"])}, "dbfs_d_mixed")
    rm = common.run_tlc(dm, "StoreDbfs.tla", "StoreDbfs_design.cfg", timeout=900)
    common.tlc_must_pass(rm, "StoreDbfs design (reconfigured commit types)")
    states += rm.distinct
    trans += rm.generated
    for c0 in COMMITS:
        dg = common.stage_spec({"DbfsConf.tla": conf(c0, 3, True, commits=list(COMMITS), keys=["kS", "kO"], paths=["/t/s", "/.h"])}, "dbfs_gm_" + c0)
        rg = common.run_tlc(dg, "StoreDbfs.tla", "StoreDbfs_gen.cfg", workers=1, timeout=600)
        common.tlc_must_pass(rg, "StoreDbfs generation (mixed)")
        hm = [h for h in rg.printed("HIST") if any(o["op"] == "config" for o in h)]
        ds = common.stage_spec({"DbfsConf.tla": conf(c0, 8, True, commits=list(COMMITS))}, "dbfs_sm_" + c0)
        rs = common.run_tlc(ds, "StoreDbfs.tla", "StoreDbfs_gen.cfg", workers=1, timeout=600,
                            extra=["-simulate", "num=%d" % (80 if tier == "quick" else 2000), "-depth", "9", "-seed", str(common.seed() + 19)])
        if rs.rc != 0:
            raise MachineryError("StoreDbfs simulation (mixed) failed:\n" + rs.tail(20))
        hm += [h for h in rs.printed("HIST") if any(o["op"] == "config" for o in h)]
        for (i, h) in enumerate(hm):
            sp = COMMITS[c0]
            tasks.append((len(tasks), c0, sp[i % len(sp)], h, base))
    for (commit, spellings) in COMMITS.items():
        d = common.stage_spec({"DbfsConf.tla": conf(commit, 1000000, False)}, "dbfs_d_" + commit)
        r = common.run_tlc(d, "StoreDbfs.tla", "StoreDbfs_design.cfg", timeout=600)
        common.tlc_must_pass(r, "StoreDbfs design (%s)" % commit)
        states += r.distinct
        trans += r.generated
        d2 = common.stage_spec({"DbfsConf.tla": conf(commit, 3, True)}, "dbfs_g_" + commit)
        r2 = common.run_tlc(d2, "StoreDbfs.tla", "StoreDbfs_gen.cfg", workers=1, timeout=600)
        common.tlc_must_pass(r2, "StoreDbfs generation")
        hs = r2.printed("HIST")
        d3 = common.stage_spec({"DbfsConf.tla": conf(commit, 7, True)}, "dbfs_s_" + commit)
        r3 = common.run_tlc(d3, "StoreDbfs.tla", "StoreDbfs_gen.cfg", workers=1, timeout=600,
                            extra=["-simulate", "num=%d" % (150 if tier == "quick" else 3000), "-depth", "8", "-seed", str(common.seed() + 9)])
        if r3.rc != 0:
            raise MachineryError("StoreDbfs simulation failed:\n" + r3.tail(20))
        hs += r3.printed("HIST")
        if tier == "quick":
            hs = hs[:: max(1, len(hs) // 260)]
        for (i, h) in enumerate(hs):
            tasks.append((len(tasks), commit, spellings[i % len(spellings)], h, base))
    rep.cov["states"] = states
    rep.cov["transitions"] = trans
    with multiprocessing.get_context("fork").Pool(common.NCPU) as pool:
        outs = pool.map(_replay, [(t[0], t[2], t[3], t[4]) for t in tasks], chunksize=4)
    n = 0
    nontriv = set()
    for (t, out) in zip(tasks, outs):
        (_, commit0, spelling, h, _) = t
        commit = commit0
        mixed = any(o["op"] == "config" for o in h)
        if out["fatal"]:
            raise MachineryError("C19 replay: %s" % out["fatal"])
        n += 1
        if out.get("setup_error"):
            rep.violation("C19|commit-type-refused|%s|%s" % (spelling, out["setup_error"].split(":")[0]),
                          {"commit_type": spelling, "error": out["setup_error"]})
            continue
        if any(o["op"] == "plant" for o in h) or any(o["op"] == "load" for o in h):
            nontriv.add((commit0, json.dumps([[o["op"], o["q"], o["k"]] for o in h])))
        copies: Dict[str, Optional[str]] = {q: None for q in PATHS}
        records: Dict[str, Optional[str]] = {q: None for q in PATHS}
        for (j, (o, a)) in enumerate(zip(h, out["answers"])):
            exp = o["ans"]
            if o["op"] == "config":
                commit = o["k"]
            cfgs = [commit0] + [x["k"] for x in h[: j + 1] if x["op"] == "config"]
            ctag = commit + ("|after-reconfiguration:" + ">".join(cfgs[-2:]) if len(cfgs) > 1 else "")
            legacy = "legacy" if any(x["op"] == "plant" and x["k"] == (o["k"] or "") for x in h[:j]) else "current"
            kind = KEYS.get(o["k"], "") if o["k"] else ""
            if a["value"] != exp["value"]:
                got = a["value"][0] if a["value"][0] != "EXC" else "EXC:" + a["value"][1]
                rep.violation("C19|%s|%s|expected=%s|got=%s|%s,%s" % (ctag, o["op"], exp["value"][0], got, legacy, kind),
                              {"commit_type": spelling, "value_index": t[0] % len(VALUE_SETS), "ops": h[: j + 1], "expected": exp, "observed": {k: a[k] for k in ("executed", "value")}})
                break
            if o["op"] == "keep" and a["executed"] != exp["executed"]:
                rep.violation("C19|%s|keep-executed=%s-expected=%s|%s,%s" % (ctag, a["executed"], exp["executed"], legacy, kind),
                              {"commit_type": spelling, "value_index": t[0] % len(VALUE_SETS), "ops": h[: j + 1]})
                break
            if o["op"] == "keep":
                if commit == "full":
                    copies[o["q"]] = o["k"]
                if commit in ("full", "links_only"):
                    records[o["q"]] = o["k"]
            bad = ""
            for q in PATHS:
                f = a["files"][q]
                exp_copy = a["blob_hex"][copies[q]] if copies[q] else None
                exp_rec = a["sig"][records[q]] if records[q] else None
                if f["copy"] != exp_copy:
                    bad = "copy-under-data-dir|%s" % ("missing" if f["copy"] is None else ("unexpected" if exp_copy is None else "not-byte-identical"))
                elif f["record"] != exp_rec:
                    bad = "redirect-record|%s" % ("missing" if f["record"] is None else ("unexpected" if exp_rec is None else "wrong-key"))
                if bad:
                    rep.violation("C19|%s|%s" % (ctag, bad), {"commit_type": spelling, "value_index": t[0] % len(VALUE_SETS), "ops": h[: j + 1], "path": q, "files": f})
                    break
            if bad:
                break
        else:
            rep.add_sample({"commit_type": spelling, "value_index": t[0] % len(VALUE_SETS), "ops": [[o["op"], o["q"], o["k"], o["ans"]["value"]] for o in h]})
    # the store contract (C08) on DBFSStore(fake)
    nstore = store_contract(rep, tier)
    rep.cov["traces_validated_against_impl"] = n + nstore
    rep.cov["store_contract_behaviours_on_dbfs"] = nstore
    rep.cov["evaluations"] = n + nstore
    rep.cov["distinct_nontrivial"] = len(nontriv)
    rep.cov["rule"] = ("behaviour = sequence of keep / load / planted-legacy-blob steps (all of length 3 + simulated length 7) per commit "
                       "type, each documented spelling in turn; non-trivial when it loads or involves a legacy blob")
    rep.cov["exhaustive"] = False
    rep.assumptions += ["semantics of the in-process fake of dbutils.fs (cp / put / head / rm; FileNotFoundException as a plain "
                        "Exception); no Databricks runtime; the PySpark codec is not exercised"]
    if len(nontriv) < 2 and not rep.violations and not rep.known_hits:
        rep.finish()
        raise MachineryError("vacuity guard")
    return rep.finish()


def store_contract(rep: Report, tier: str) -> int:
    hs = storeprops.gen_exhaustive(0, "local", 3, "ge19", sync_absent=False)[:: (9 if tier == "quick" else 1)] + \
        storeprops.gen_simulated(0, "local", 12, 120 if tier == "quick" else 1500, common.seed(), "gs19", sync_absent=False)
    storeprops.PATHSETS["dots"] = {1: "/.h", 2: "/h", 3: "/a/.b"}
    tasks = []
    for (i, h) in enumerate(hs):
        ps = ["concat", "depth", "dots"][i % 3]
        tasks.append(("dbfs", 0, h, ps, False))
        if i % 2 == 0:
            # two live store objects over the same directories (two notebooks), operations rotate over them
            tasks.append(("dbfs@2", 0, h, ps, False))
    # code -> spec: recorded traces of two live DBFS store objects used in alternation, judged by StoreTrace
    traces = storeprops.record_traces(60 if tier == "quick" else 600, 16, common.seed() + 19, [("dbfs@2", 0)])
    (tr, rejected) = storeprops.validate_traces(traces, name="strace19")
    for rj in rejected:
        t = rj["trace"]
        ev = rj["event"] or {}
        rep.violation("C19|two-handles|trace|%s|%s" % (ev.get("op") or "?", rj["clause"].replace(" ", "_")),
                      {"store": "dbfs(fake), two live store objects in alternation", "clause": rj["clause"], "position": rj["position"],
                       "event": ev, "paths": t["paths"], "events": t["events"][: rj["position"] + 1]})
    rep.cov["recorded_two_handle_traces_validated_by_tlc"] = len(traces)
    results = storeprops.run_all(tasks)
    for ((kind, cap, h, ps, _), res) in zip(tasks, results):
        for (j, (x, o)) in enumerate(zip(h, res)):
            exp = storedrv.norm_model_ans(x["op"], x["ans"])
            if o["ans"] != exp:
                rep.violation("C19|store-contract%s|%s|expected=%s|got=%s|pathset=%s" % ("-two-handles" if kind.endswith("@2") else "", x["op"], storeprops._ans_kind(exp), storeprops._ans_kind(o["ans"]), ps),
                              {"store": "dbfs(fake)" + ("-two-handles" if kind.endswith("@2") else ""), "pathset": storeprops.PATHSETS[ps], "ops": h[: j + 1], "expected": exp, "observed": o["ans"]})
                break
    return len(tasks)


def replay_file(prop: str, path: str) -> int:
    evalfam.import_dds()
    with open(path) as f:
        v = json.load(f)
    d = v["detail"]
    print("cause: %s" % v["fingerprint"])
    if "commit_type" in d and "ops" in d:
        out = _replay((0, d["commit_type"], d["ops"], common.sub_scratch("replay19"), d.get("value_index", 0)))
        if out.get("setup_error"):
            print("set_store failed: %s" % out["setup_error"])
            print("VIOLATION property=%s replay=%s" % (prop, path))
            return 1
        bad = 0
        for (o, a) in zip(d["ops"], out["answers"]):
            flag = "" if a["value"] == o["ans"]["value"] else "  <-- differs"
            bad += 1 if flag else 0
            print("%-6s %-6s %-3s expected=%s observed=%s files=%s%s" % (o["op"], o["q"], o["k"], o["ans"]["value"], a["value"],
                                                                       {q: {k: (x[:16] if isinstance(x, str) else x) for (k, x) in f.items()} for (q, f) in a["files"].items()}, flag))
        if bad:
            print("VIOLATION property=%s replay=%s" % (prop, path))
        return 1 if bad else 0
    print(json.dumps(d)[:1500])
    return 1
