"""
C06 - a process killed at any instant never leaves a store that serves wrong data.

Scenarios are histories TLC generates from DdsEval (so that the expected values come from the
specification): everything before the last evaluation is the set-up, the last evaluation is the
*victim*, run under the file-system shim and killed before each of its mutating calls in turn
(kill -9: completed calls durable, nothing else).  A recovery process then evaluates the same
pipeline, loads every path committed before the crash, and evaluates again.
The recorded call traces are validated by TLC against the file-system model (FsTrace).
"""
import copy
import json
import multiprocessing
import os
import shutil
import time
from typing import Any, Dict, List, Optional, Tuple

from . import common, evalfam, explorer, materialize as mat, replay, shapes as shp, worker
from .common import MachineryError, Report
from .shapes import Shape


def file_class(path: str, root: str) -> str:
    rel = os.path.relpath(path, root)
    parts = rel.split(os.sep)
    base = parts[-1]
    if "internal" in parts:
        if base == "blobs" or base == "internal":
            return "dir"
        if base.endswith(".meta"):
            return "meta"
        if len(base) >= 64 and all(c in "0123456789abcdef" for c in base[:64]) and len(base) == 64:
            return "blob"
        return "tmp"
    if "data" in parts:
        return "link-or-dir"
    return "other"


def describe_point(op: Dict[str, Any], prev: Optional[Dict[str, Any]], root: str) -> str:
    def d(o):
        if o is None:
            return "start"
        a = o["args"]
        tgt = a[-1] if o["op"] in ("symlink", "rename", "replace", "link") else a[0]
        s = "%s(%s)" % (o["op"], file_class(tgt, root))
        if o["op"] == "write":
            s = "write%d(%s)" % (a[1], file_class(a[0], root))
        return s
    return "after=%s,before=%s" % (d(prev), d(op))


def _victim_parts(shape: Shape, hist: List[Dict[str, Any]], root: str, store_kind: str
                  ) -> Tuple[List[Dict[str, Any]], Dict[str, Any], Dict[str, Any]]:
    """(set-up segments, victim segment, victim's eval record); the victim gets its own process."""
    hist2 = []
    pid = 0
    evs = [i for (i, r) in enumerate(hist) if r["op"] == "eval"]
    for (i, rec) in enumerate(hist):
        if rec["op"] == "eval":
            rec = dict(rec)
            if i == evs[-1]:
                rec["pid"] = 10 ** 6
            hist2.append(rec)
        else:
            hist2.append(rec)
    segs = replay.build_segments(shape, hist2, root, store_kind)
    return (segs[:-1], segs[-1], hist[evs[-1]])


def _crash_task(a) -> Dict[str, Any]:
    (idx, shape_json, hist, store_kind, base, double) = a
    shape = Shape.from_json(shape_json)
    root = os.path.join(base, "c%d" % idx)
    os.makedirs(root, exist_ok=True)
    out: Dict[str, Any] = {"idx": idx, "points": [], "fatal": None}
    try:
        (setup, victim, vrec) = _victim_parts(shape, hist, root, store_kind)
        obs: Dict[int, Dict[str, Any]] = {}
        for seg in setup:
            replay._run_one(seg, root, obs, None)
        store_dir = os.path.join(root, "store")
        snap = os.path.join(root, "store_snapshot")
        if os.path.isdir(store_dir):
            shutil.copytree(store_dir, snap, symlinks=True)
        files = victim.pop("files")
        mat.write_tree(root, files)
        prev_evals = [r for r in hist if r["op"] == "eval"][:-1]
        before = {}
        for r in prev_evals:
            for (p, v) in r["served"]:
                before[p] = v
        after = dict(before)
        for (p, v) in vrec["served"]:
            after[p] = v
        from . import fsmodel
        init_snap = fsmodel.snapshot(store_dir, root)
        # 0. the victim without crash
        p0 = explorer.run_solo(victim, [store_dir])
        if p0.result is None or p0.result.get("fatal"):
            out["fatal"] = "victim failed without crash: %s" % (p0.result,)
            return out
        o0 = p0.result["steps"][-1]
        out["victim_result_ok"] = (o0.get("err") is None and o0.get("result") == vrec["result"])
        out["nmut"] = p0.nmut
        ops0 = [o for o in explorer.ops_of(p0) if "op" in o]
        strip = lambda ops_: [{"op": o["op"], "args": [x if not isinstance(x, str) else x.replace(root, "") for x in o["args"]],
                               "ok": o.get("ok"), "res": o.get("res").replace(root, "") if isinstance(o.get("res"), str) else o.get("res")} for o in ops_]
        out["trace"] = strip(ops0)
        out["fs_traces"] = [{"init": init_snap, "events": strip(ops0), "final": fsmodel.snapshot(store_dir, root)}]
        muts = [o for o in ops0 if o.get("mut")]
        rec_seg = {"root_dir": root, "mode": "dds", "modules": victim["modules"], "store": victim["store"],
                   "accept": victim.get("accept"),
                   "steps": [{"op": "load", "paths": sorted(before), "h": -1},
                             dict(victim["steps"][-1]), {"op": "load", "paths": sorted(before), "h": -1},
                             dict(victim["steps"][-1])]}
        for i in range(1, p0.nmut + 1):
            shutil.rmtree(store_dir, ignore_errors=True)
            if os.path.isdir(snap):
                shutil.copytree(snap, store_dir, symlinks=True)
            pv = explorer.run_solo(victim, [store_dir], crash_before=i)
            if not pv.killed:
                continue
            point = describe_point(muts[i - 1], muts[i - 2] if i >= 2 else None, root)
            if i % 5 == 2:
                # kill -9 semantics: the tree at the kill is the tree the completed calls produce
                done_ops = [o for o in explorer.ops_of(pv) if "op" in o and "ok" in o]
                out["fs_traces"].append({"init": init_snap, "events": strip(done_ops), "final": fsmodel.snapshot(store_dir, root)})
            res = worker.run_forked(rec_seg)
            pt = {"i": i, "point": point, "recovery": _judge_recovery(res, vrec, before, after)}
            out["points"].append(pt)
            if double and not pt["recovery"]["bad"] and i % 3 == 1:
                # double crash: the recovery itself is killed at each of its mutating calls, then a
                # second recovery is judged (the first recovery's evaluation is the second victim)
                crashed_tree = os.path.join(root, "crashed_snapshot")
                shutil.rmtree(crashed_tree, ignore_errors=True)
                shutil.rmtree(store_dir, ignore_errors=True)
                if os.path.isdir(snap):
                    shutil.copytree(snap, store_dir, symlinks=True)
                pv0 = explorer.run_solo(victim, [store_dir], crash_before=i)
                if os.path.isdir(store_dir):
                    shutil.copytree(store_dir, crashed_tree, symlinks=True)
                pr = explorer.run_solo(victim, [store_dir])
                for j in range(1, getattr(pr, "nmut", 0) + 1):
                    shutil.rmtree(store_dir, ignore_errors=True)
                    if os.path.isdir(crashed_tree):
                        shutil.copytree(crashed_tree, store_dir, symlinks=True)
                    pj = explorer.run_solo(victim, [store_dir], crash_before=j)
                    if not pj.killed:
                        continue
                    res2 = worker.run_forked(rec_seg)
                    out["points"].append({"i": i, "j": j, "point": point + "|then-recovery-killed-before-call-%d" % j,
                                          "recovery": _judge_recovery(res2, vrec, before, after)})
    except BaseException as e:
        import traceback
        out["fatal"] = traceback.format_exc()[-1500:]
    finally:
        shutil.rmtree(root, ignore_errors=True)
    return out


def _judge_recovery(res: Dict[str, Any], vrec: Dict[str, Any], before: Dict[str, Any], after: Dict[str, Any]) -> Dict[str, Any]:
    if res.get("fatal"):
        return {"bad": "recovery-worker-failed", "detail": res["fatal"]}
    (ld0, e1, ld, e2) = res["steps"]
    exp = vrec["result"]

    def judge_eval(o, which):
        if o.get("err") is not None:
            return "%s-raises|%s" % (which, o["err"]["type"])
        r = o.get("result")
        if r != exp:
            if r is None:
                return "%s-returns-None" % which
            return "%s-returns-wrong-value" % which
        return ""
    bad = ""
    detail: Dict[str, Any] = {}
    for (which, lds) in (("load-before-reevaluation", ld0), ("load", ld)):
        if which == "load":
            bad = bad or judge_eval(e1, "keep")
            detail["keep_1"] = {"result": e1.get("result"), "err": e1.get("err")}
        if bad:
            break
        for (p, lv) in sorted(lds["loads"].items()):
            if "err" in lv:
                bad = "%s-raises|%s" % (which, lv["err"]["type"])
            elif lv["value"] != before.get(p) and lv["value"] != after.get(p):
                bad = "%s-returns-%s" % (which, "None" if lv["value"] is None else "wrong-value")
            if bad:
                detail[which] = {p: lv}
                break
    if not bad:
        bad = judge_eval(e2, "second-keep")
        detail["keep_2"] = {"result": e2.get("result"), "err": e2.get("err")}
    return {"bad": bad, "detail": detail}


PLANS = [["eval"], ["eval", "edit", "eval"], ["eval2"]]


def scenario_shapes(tier: str = "quick") -> List[Shape]:
    names = ("chain", "nest", "args") if tier == "quick" else ("chain", "nest", "args", "shared", "rt3", "rootarg", "rtchain")
    S = [s for s in shp.core_shapes() if s.name in names] + [shp.single_shape()]
    if tier == "thorough":
        S += [s for s in shp.load_shapes() if s.name in ("ld_df", "ld_keep", "ld_nested")]
    return S


def run_c06(tier: str) -> int:
    rep = Report("C06", tier, level="model_checking")
    evalfam.import_dds()
    from . import fsmodel
    # 1. design level: the local-store protocol as a PlusCal algorithm over the FS model
    fsmodel.design_checks(rep, "C06", tier)
    # 2. crash-point enumeration on the real code
    S = scenario_shapes(tier)
    (_, hs) = evalfam.tlc_generate(S, PLANS, 1, "local", "package", ["one"], name="g06_")
    byname = {s.name: s for s in S}
    items = []
    for h in hs:
        last_edit = [r for r in h["hist"] if r["op"] == "edit"]
        if last_edit and last_edit[-1]["kind"] in ("unrel", "ext", "layout", "cos"):
            continue    # re-keep scenarios: edits that change what is stored
        items.append((byname[h["shape"]], h["hist"]))
    if tier == "quick":
        keep_all = [x for x in items if x[0].name == "single"]
        rest = [x for x in items if x[0].name != "single"]
        items = keep_all + rest[:: max(1, len(rest) // 22)]
    base = common.sub_scratch("crash")
    kinds = ["local"] if tier == "quick" else ["local", "local+lru"]
    tasks = []
    for sk in kinds:
        for (s, h) in items:
            tasks.append((len(tasks), s.to_json(), h, sk, base, tier == "thorough"))
    with multiprocessing.get_context("fork").Pool(common.NCPU) as pool:
        outs = pool.map(_crash_task, tasks, chunksize=1)
    npoints = 0
    distinct = set()
    traces = []
    algos = set()
    conf: Dict[str, Any] = {}
    for (t, out) in zip(tasks, outs):
        if out["fatal"]:
            raise MachineryError("crash explorer failed on %s: %s" % (t[1]["name"], out["fatal"]))
        if not out.get("victim_result_ok"):
            raise MachineryError("victim without crash does not return the expected value (%s)" % t[1]["name"])
        traces += out["fs_traces"]
        algos.add(fsmodel.measure_algo(out["trace"]))
        # conformance of the real call sequence with the algorithm model, on the two scenarios that
        # have an exact counterpart in LocalStoreFS
        evs = [r for r in t[2] if r["op"] == "eval"]
        eds = [r for r in t[2] if r["op"] == "edit"]
        if t[3] == "local" and t[1]["name"] == "nest" and len(evs) == 1 and evs[0]["style"] == "eval" and "conform_nested" not in conf:
            conf["conform_nested"] = fsmodel.conformance(out["trace"], "conform_nested", "cn")
        if t[3] == "local" and t[1]["name"] == "single" and len(evs) == 2 and eds and eds[-1]["kind"] == "var" and "conform_rekeep" not in conf:
            conf["conform_rekeep"] = fsmodel.conformance(out["trace"], "conform_rekeep", "cr")
        scen = "re-keep" if any(r["op"] == "edit" for r in t[2]) else "first-keep"
        for pt in out["points"]:
            npoints += 1
            distinct.add((t[1]["name"], scen, pt["point"]))
            if pt["recovery"]["bad"]:
                rep.violation("C06|%s|%s|%s" % (pt["recovery"]["bad"], pt["point"].split("|then-recovery-killed")[0] + ("|double-crash" if "j" in pt else ""), scen),
                              {"shape": t[1], "history": t[2], "store": t[3], "crash_before_mutating_call": pt["i"],
                               "point": pt["point"], "recovery": pt["recovery"]})
        if out["points"]:
            rep.add_sample({"shape": t[1]["name"], "scenario": scen, "mutating_calls": out["nmut"],
                            "crash_points": [p["point"] for p in out["points"][:6]], "all_recoveries_correct": not any(p["recovery"]["bad"] for p in out["points"])})
    # 3. the recorded call traces against the file-system model
    ntr = fsmodel.validate_fs_traces(rep, traces)
    rep.cov["traces_validated_against_impl"] = npoints + ntr
    rep.cov["crash_points_executed"] = npoints
    rep.cov["impl_algo"] = sorted(algos)
    rep.cov["model_conformance"] = conf
    if len(conf) < 2:
        rep.finish()
        raise MachineryError("conformance scenarios were not exercised: %s" % sorted(conf))
    conformant = all(c["algo"] == "atomic" for c in conf.values())
    rep.cov["impl_spec_conformant"] = conformant
    if not conformant:
        rep.notes.append("the working tree does not follow the 'atomic' write protocol: the design-level TLC result for "
                         "'atomic' does not transfer; the verdict rests on the real executions alone")
    rep.cov["fs_traces_validated_by_tlc"] = ntr
    rep.cov["evaluations"] = npoints
    rep.cov["distinct_nontrivial"] = len(distinct)
    rep.cov["rule"] = ("one execution = victim evaluation killed (SIGKILL) before its i-th mutating file-system call (mkdir / open / "
                       "each half of each write / close / remove / symlink / rename), then a recovery process; every i is "
                       "enumerated; distinct by (shape, first-keep or re-keep, abstract crash point)")
    rep.cov["exhaustive"] = True
    rep.cov["exhaustive_part"] = "every mutating-call boundary of the victim evaluation of every listed scenario"
    rep.assumptions += ["kill -9 semantics: completed calls durable, no power loss",
                        "Python-level interposition sees every file-system effect of the store and codecs (str / pickle codecs)"]
    if npoints < 10:
        rep.finish()
        raise MachineryError("vacuity guard: %d crash points" % npoints)
    return rep.finish()


def replay_file(prop: str, path: str) -> int:
    """Re-run the crash points of the scenario stored in a replay file."""
    evalfam.import_dds()
    with open(path) as f:
        v = json.load(f)
    d = v["detail"]
    print("cause: %s" % v["fingerprint"])
    out = _crash_task((0, d["shape"], d["history"], d["store"], common.sub_scratch("replay06"), False))
    if out["fatal"]:
        print(out["fatal"])
        return 2
    bad = [p for p in out["points"] if p["recovery"]["bad"]]
    for p in bad:
        print("VIOLATION property=%s replay=%s" % (prop, path))
        print("  crash before mutating call %d (%s): %s" % (p["i"], p["point"], p["recovery"]["bad"]))
        print("  %s" % json.dumps(p["recovery"]["detail"])[:600])
    if not bad:
        print("all %d crash points of this scenario recover correctly" % len(out["points"]))
    return 1 if bad else 0
