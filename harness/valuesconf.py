"""Generated module ValuesConf: the named atoms of the value universe (with their canonical
identity per DESIGN.md 4.4), and the Python side of the same table (how to build each atom)."""
import datetime
import hashlib
from pathlib import PurePosixPath
from typing import Any, Dict, List

from .common import Rec, tlax

HEX_A = hashlib.sha256(b"a").hexdigest()

# id, python expression, canonical identity, flags
#   core: used inside containers (level 1); tiny: used for level 2; key: used as dict key
ATOMS: List[Dict[str, Any]] = []


def _a(id_: str, py: Any, canon: List[str], core=False, tiny=False, key=False, sup=True, key1=False):
    # key: used as dict key (also in two-entry dicts); key1: used as the key of one-entry dicts only
    ATOMS.append({"id": id_, "py": py, "c": canon, "core": core, "tiny": tiny, "key": key, "sup": sup, "key1": key1 or key})


def num(s: str) -> List[str]:
    return ["num", s]


_a("none", None, ["none"], core=True, tiny=True, key1=True)
_a("true", True, num("1"), core=True)
_a("false", False, num("0"))
_a("i0", 0, num("0"), core=True, tiny=True, key=True)
_a("i1", 1, num("1"), core=True, key=True)
_a("i-1", -1, num("-1"))
_a("i2", 2, num("2"))
_a("i255", 255, num("255"))
_a("i256", 256, num("256"))
_a("i65536", 65536, num("65536"))
_a("imax32", 2 ** 31 - 1, num("2147483647"))
_a("i2p31", 2 ** 31, num("2147483648"))
_a("imin32", -2 ** 31, num("-2147483648"))
_a("imin32m1", -2 ** 31 - 1, num("-2147483649"))
_a("i2p32", 2 ** 32, num("4294967296"))
_a("i2p63", 2 ** 63, num("9223372036854775808"))
_a("i2p64p1", 2 ** 64 + 1, num("18446744073709551617"))
# pairs of opposite sign that are congruent modulo a power of 256 (a minimal-width two's complement would merge them)
_a("i-2p63", -(2 ** 63), num("-9223372036854775808"))
_a("i2p39m1", 2 ** 39 - 1, num("549755813887"))
_a("i-2p39m1", -(2 ** 39) - 1, num("-549755813889"))
_a("i-2p40", -(2 ** 40), num("-1099511627776"))
_a("i2p48m2p40", 2 ** 48 - 2 ** 40, num("280375465082880"))
_a("i10p5000", 10 ** 5000, num("10^5000"))        # beyond CPython's int -> decimal str digit limit (4300)
_a("i-10p5000", -(10 ** 5000), num("-10^5000"))
_a("f0", 0.0, num("0"), core=True)
_a("f-0", -0.0, num("0"))
_a("f1", 1.0, num("1"))
_a("f0.1", 0.1, num("0.1"), core=True)
_a("f0.5", 0.5, num("0.5"), key1=True)
_a("fnan", float("nan"), num("nan"))
_a("finf", float("inf"), num("inf"))
_a("f-inf", float("-inf"), num("-inf"))
_a("f1e300", 1e300, num("1e300"))
_a("s_empty", "", ["str", ""], core=True, tiny=True)
_a("s_a", "a", ["str", "a"], core=True, tiny=True, key=True)
_a("s_b", "b", ["str", "b"], key=True)
_a("s_pipe", "|", ["str", "|"], core=True)
_a("s_0", "0", ["str", "0"], key1=True)
_a("s_1", "1", ["str", "1"], key1=True)
_a("s_0.5", "0.5", ["str", "0.5"], key1=True)
_a("s_tuple12", "(1, 2)", ["str", "(1, 2)"], key1=True)
_a("s_None", "None", ["str", "None"], key1=True)
_a("s_ddsnone", "__DDS_NONE__", ["str", "__DDS_NONE__"])
_a("s_none2", "__none__", ["str", "__none__"])
_a("s_brackets", "[]", ["str", "[]"])
_a("s_hex_a", HEX_A, ["str", HEX_A], core=True)
_a("s_a_pipe_a", "a|a", ["str", "a|a"])
_a("s_unicode", "ü中", ["str", "u-umlaut-zhong"])
_a("s_surrogate", "\ud800x", ["str", "lone-surrogate-x"])     # a valid str that strict utf-8 cannot encode
_a("s_True", "True", ["str", "True"])
_D = datetime.date(2020, 1, 2)
_a("date", _D, ["str", repr(_D)], core=True, key1=True)
_a("s_date", repr(_D), ["str", repr(_D)])
_DT = datetime.datetime(2020, 1, 2, 3, 4, 5)
_a("datetime", _DT, ["str", repr(_DT)])
_TD = datetime.timedelta(days=1, seconds=2)
_a("timedelta", _TD, ["str", repr(_TD)])
_T = datetime.time(3, 4, 5)
_a("time", _T, ["str", repr(_T)])
_P = PurePosixPath("/x/y")
_a("ppath", _P, ["str", str(_P)], core=True)
_a("s_path", str(_P), ["str", str(_P)])


# unsupported types: hashing must end with the coded error TYPE_NOT_SUPPORTED, also when nested
_a("u_bytes", b"raw", ["unsupported", "bytes"], core=True, sup=False, key1=True)
_a("u_set", frozenset([1]), ["unsupported", "set"], sup=False)
_a("u_complex", 1j, ["unsupported", "complex"], sup=False)
_a("u_object", object, ["unsupported", "type"], sup=False)
import threading  # noqa
_a("u_lock", threading.Lock(), ["unsupported", "lock"], sup=False)       # cannot be copied / pickled


def by_id() -> Dict[str, Dict[str, Any]]:
    return {a["id"]: a for a in ATOMS}


DEFAULT_IDS = ["none", "i0", "false", "s_empty", "i1", "s_a"]
ARG_IDS = ["none", "i0", "i1", "true", "s_empty", "s_a"]


def module(mode: str, depth: int = 1, chunk: int = 300, max_params: int = 2, min_params: int = 1,
           arg_ids=None, default_ids=None) -> str:
    atoms = [Rec(id=a["id"], c=a["c"], core=a["core"], tiny=a["tiny"], key=a["key"], key1=a["key1"], sup=a["sup"]) for a in ATOMS]
    return "\n".join([
        "---- MODULE ValuesConf ----",
        "Atoms == %s" % tlax(atoms),
        "Depth == %d" % depth,
        "Chunk == %d" % chunk,
        "GenMode == %s" % tlax(mode),
        "DefaultIds == %s" % tlax(set(default_ids or DEFAULT_IDS)),
        "ArgIds == %s" % tlax(set(arg_ids or ARG_IDS)),
        "MaxParams == %d" % max_params,
        "MinParams == %d" % min_params,
        "====", ""])
