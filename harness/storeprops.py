"""
C08 (stores round-trip blobs and paths; no aliasing, no escape) and C12 (object cache
invisible and bounded), decided on spec/StoreModel.tla:
  design      TLC explores the full state graph of the store model (unbounded operation
              sequences over small key / path sets) with the round-trip / Invisible / Bounded
              invariants;
  spec->code  TLC-generated behaviours (exhaustive short ones + simulated long ones) are
              replayed on the real stores, every answer compared with the model's;
  code->spec  randomly driven real executions (bigger alphabets: dotted, unicode, spaced
              paths) are recorded and validated by TLC against StoreTrace.
"""
import json
import multiprocessing
import os
import random
import time
from typing import Any, Dict, List, Optional, Tuple

from . import common, evalfam, storeconf, storedrv
from .common import MachineryError, Report

KEYS = ["k1", "k2", "k3"]
NONE_KEYS = ["k3"]

PATHSETS: Dict[str, Dict[int, str]] = {
    "concat": {1: "/a/b/c", 2: "/ab/c", 3: "/a/bc"},
    "depth": {1: "/p", 2: "/d/q", 3: "/d/e/f/r"},
    "odd": {1: "/a b/ü", 2: "/.h", 3: "/x/.y/z"},
}
NPATHS = 3


def _stage(conf: str, name: str) -> str:
    return common.stage_spec({"StoreConf.tla": conf}, name)


def design_run(cap: int, cache_absent: bool, kind: str, name: str, sync_absent: bool = False) -> common.TLCResult:
    d = _stage(storeconf.design(KEYS, NONE_KEYS, NPATHS, cap, cache_absent, kind, 1000000, False, sync_absent=sync_absent), name)
    return common.run_tlc(d, "StoreModel.tla", "StoreModel_design.cfg", timeout=600)


def gen_exhaustive(cap: int, kind: str, depth: int, name: str, sync_absent: bool = False) -> List[List[Dict[str, Any]]]:
    d = _stage(storeconf.design(KEYS, NONE_KEYS, NPATHS, cap, False, kind, depth, True, sync_absent=sync_absent), name)
    r = common.run_tlc(d, "StoreModel.tla", "StoreModel_gen.cfg", timeout=600, workers=1)
    common.tlc_must_pass(r, "StoreModel generation")
    return r.printed("HIST")


def gen_simulated(cap: int, kind: str, depth: int, num: int, seed: int, name: str, sync_absent: bool = False) -> List[List[Dict[str, Any]]]:
    d = _stage(storeconf.design(KEYS, NONE_KEYS, NPATHS, cap, False, kind, depth, True, sync_absent=sync_absent), name)
    r = common.run_tlc(d, "StoreModel.tla", "StoreModel_gen.cfg", timeout=600, workers=1,
                       extra=["-simulate", "num=%d" % num, "-depth", str(depth + 1), "-seed", str(seed + 1)])
    if r.rc != 0 or r.violated:
        raise MachineryError("StoreModel simulation failed:\n" + r.tail(30))
    return r.printed("HIST")


_frozen = [False]


def _task(a) -> Tuple[int, List[Dict[str, Any]]]:
    (idx, kind, cap, hist, pathset, base, alive) = a
    if not _frozen[0]:
        # the worker inherits the parent's heap (every generated history): keep it out of the
        # gc.collect() calls that measure object retention, or each of them walks all of it
        import gc
        gc.collect()
        gc.freeze()
        _frozen[0] = True
    root = os.path.join(base, "s%d" % idx)
    handles = 1
    if kind.endswith("@2"):      # two store objects over the same directories
        (kind, handles) = (kind[:-2], 2)
    return (idx, storedrv.run_history(kind, cap, hist, root, KEYS, NONE_KEYS, PATHSETS[pathset], alive, handles))


def run_all(tasks: List[Tuple[str, int, List[Dict[str, Any]], str, bool]]) -> List[List[Dict[str, Any]]]:
    evalfam.import_dds()
    base = common.sub_scratch("stores")
    args = [(i, k, c, h, ps, base, al) for (i, (k, c, h, ps, al)) in enumerate(tasks)]
    out: List[Any] = [None] * len(args)
    with multiprocessing.get_context("fork").Pool(common.NCPU) as pool:
        for (idx, res) in pool.imap_unordered(_task, args, chunksize=8):
            out[idx] = res
    return out


def _ans_kind(a: Any) -> str:
    if not a:
        return "?"
    if a[0] == "B":
        return "B:%s" % a[1]
    return str(a[0])


# ----------------------------------------------------------------------------------------
# code -> spec: recorded traces validated by TLC
# ----------------------------------------------------------------------------------------

TRACE_PATHS = ["/a/b/c", "/ab/c", "/a/bc", "/abc", "/c", "/a b/ü", "/.h", "/h", "/../x", "/a/../y",
               "/./z", "/q/r/s/t"]
DOTTED = {p for p in TRACE_PATHS if any(s in (".", "..") for s in p.split("/"))}


def record_traces(n: int, length: int, seed: int, kinds: List[Tuple[str, int]]) -> List[Dict[str, Any]]:
    """Random drivers that do not know the specification.  Path identity (sequence of
    non-empty segments) is all distinct in TRACE_PATHS, prefix conflicts are avoided per trace."""
    rnd = random.Random(seed)
    keys = ["k1", "k2", "k3", "k4", "k5"]
    none_keys = ["k3"]
    specs = []
    for t in range(n):
        (kind, cap) = kinds[t % len(kinds)]
        if kind.endswith("@2"):
            # two live store objects over the same directories, used in strict alternation by a driver that
            # keeps re-committing two paths to two keys and asking where they point
            paths = rnd.sample(TRACE_PATHS[:8], 2)
            pmap = {1: paths[0], 2: paths[1]}
            ops = [("store", "k1"), ("store", "k2"), ("store", "k1"), ("store", "k2")]
            for _ in range(length):
                if rnd.random() < 0.6:
                    ops.append(("sync", [[rnd.choice([1, 2]), rnd.choice(["k1", "k2"])]]))
                else:
                    ops.append(("fetch_paths", [rnd.choice([1, 2])]))
            specs.append({"kind": kind, "cap": cap, "keys": keys, "none_keys": none_keys, "paths": pmap, "ops": ops})
            continue
        k = rnd.randint(3, 5)
        cand = [p for p in TRACE_PATHS]
        rnd.shuffle(cand)
        paths = cand[:k]
        pmap = {i + 1: p for (i, p) in enumerate(paths)}
        ops: List[Tuple[str, Any]] = []
        stored: List[str] = []
        for _ in range(length):
            c = rnd.random()
            if c < 0.25 or not stored:
                kk = rnd.choice(keys)
                ops.append(("store", kk))
                if kk not in stored:
                    stored.append(kk)
            elif c < 0.4:
                ops.append(("has", rnd.choice(keys)))
            elif c < 0.55:
                ops.append(("fetch", rnd.choice(keys)))
            elif c < 0.8:
                ps = rnd.sample(sorted(pmap), rnd.randint(1, min(3, len(pmap))))
                ops.append(("sync", [[p, rnd.choice(stored)] for p in ps]))
            elif c < 0.95:
                ps = rnd.sample(sorted(pmap), rnd.randint(1, 2))
                ops.append(("fetch_paths", ps))
            else:
                ops.append(("reopen", ""))
            if kind == "memory" and ops[-1][0] == "reopen":
                stored = []
        specs.append({"kind": kind, "cap": cap, "keys": keys, "none_keys": none_keys, "paths": pmap, "ops": ops})
    base = common.sub_scratch("traces")
    with multiprocessing.get_context("fork").Pool(common.NCPU) as pool:
        return pool.map(_trace_task, [(i, s, base) for (i, s) in enumerate(specs)], chunksize=4)


def _trace_task(a) -> Dict[str, Any]:
    (i, s, base) = a
    root = os.path.join(base, "t%d" % i)
    two = s["kind"].endswith("@2")
    r = storedrv.Runner(s["kind"][:-2] if two else s["kind"], root, s["cap"], s["keys"], s["none_keys"], s["paths"],
                        handles=2 if two else 1)
    if two:
        r.rotation = "alternate"
    events = []
    try:
        for (op, arg) in s["ops"]:
            o = r.op(op, arg)
            ev: Dict[str, Any] = {"op": op}
            a0 = o["ans"]
            if op in ("store", "has", "fetch"):
                ev["k"] = arg
            if op == "store":
                ev["ans"] = "ok" if a0 == ["ok"] else "exc"
            elif op == "has":
                ev["ans"] = a0[1] if a0[0] == "B" else "exc"
            elif op == "fetch":
                ev["ans"] = a0[:2] if a0[0] == "V" else [a0[0]]
            elif op == "sync":
                ev["m"] = arg
                ev["ans"] = "ok" if a0 == ["ok"] else ("refused" if a0[0] == "refused" else "exc")
                ev["inside"] = bool(o.get("inside", True))
                ev["dotted"] = any(s["paths"][p] in DOTTED for (p, _) in arg)
                ev["outside"] = o.get("outside", [])
            elif op == "fetch_paths":
                ev["ps"] = arg
                ev["ans"] = a0 if a0[0] in ("M", "missing") else ["exc"]
            events.append(ev)
    finally:
        r.close()
    return {"kind": "local" if two else s["kind"], "label": s["kind"], "cap": s["cap"], "keys": s["keys"], "none_keys": s["none_keys"],
            "npaths": len(s["paths"]), "paths": {str(k): v for (k, v) in s["paths"].items()},
            "dotted": sorted(k for (k, v) in s["paths"].items() if v in DOTTED),
            "events": events}


def corrupt_traces(traces: List[Dict[str, Any]], n: int) -> List[Dict[str, Any]]:
    """copies of recorded traces, each with one recorded answer altered: a presence answer flipped, or
    a fetched value / path resolution replaced by the one of another key"""
    import copy
    res: List[Dict[str, Any]] = []
    for t in traces:
        if len(res) >= n:
            break
        want = ["has", "fetch", "fetch_paths"][len(res) % 3]
        for (i, ev) in enumerate(t["events"]):
            if ev["op"] != want:
                continue
            c = copy.deepcopy(t)
            e = c["events"][i]
            if want == "has" and e["ans"] in (True, False):
                e["ans"] = not e["ans"]
            elif want == "fetch" and isinstance(e["ans"], list) and e["ans"][0] == "V":
                e["ans"] = ["V", [k for k in t["keys"] if k != e["ans"][1]][0]]
            elif want == "fetch_paths" and isinstance(e["ans"], list) and e["ans"][0] == "M" and e["ans"][1]:
                other = [k for k in t["keys"] if k != e["ans"][1][0][1]][0]
                e["ans"] = ["M", [[e["ans"][1][0][0], other]] + e["ans"][1][1:]]
            else:
                continue
            c["events"] = c["events"][: i + 1]
            res.append(c)
            break
    return res


def validate_traces(traces: List[Dict[str, Any]], name: str = "strace") -> Tuple[common.TLCResult, List[Dict[str, Any]]]:
    """One TLC run judges every trace (total steps: a mismatch names its clause in `verdict`).
    Returns (TLC result, list of rejected traces with the failing clause)."""
    import re
    d = _stage(storeconf.trace(), name)
    tf = os.path.join(d, "traces.json")
    with open(tf, "w") as f:
        json.dump(traces, f)
    r = common.run_tlc(d, "StoreTrace.tla", "StoreTrace.cfg", timeout=900, workers=1,
                       env={"TRACE_FILE": tf},
                       java_opts=["-Dtlc2.tool.queue.IStateQueue=StateDeque"])
    common.tlc_must_pass(r, "StoreTrace")
    judged: Dict[int, Tuple[str, int]] = {}
    for m in re.finditer(r'^<<"DONE", (\d+), "([^"]*)", (\d+)>>', r.out, re.M):
        # the trace spec may branch (refused commits): a trace is accepted when some branch
        # reaches its end; otherwise the longest matched prefix is reported
        (tid_, v_, l_) = (int(m.group(1)), m.group(2), int(m.group(3)))
        cur = judged.get(tid_)
        if cur is None or (cur[0] != "ok" and (v_ == "ok" or l_ > cur[1])):
            judged[tid_] = (v_, l_)
    if len(judged) != len(traces):
        raise MachineryError("trace validation judged %d of %d traces" % (len(judged), len(traces)))
    rejected = []
    for (tid, (verdict, l)) in sorted(judged.items()):
        if verdict != "ok":
            t = traces[tid - 1]
            pos = l - 2
            rejected.append({"trace_index": tid - 1, "clause": verdict, "position": pos,
                             "event": t["events"][pos] if 0 <= pos < len(t["events"]) else None, "trace": t})
    return (r, rejected)


# ----------------------------------------------------------------------------------------
# C08
# ----------------------------------------------------------------------------------------


def run_c08(tier: str) -> int:
    rep = Report("C08", tier)
    seed = common.seed()
    states = trans = 0
    for kind in ("local", "memory"):
        r = design_run(0, False, kind, "d_" + kind)
        common.tlc_must_pass(r, "StoreModel design (%s)" % kind)
        states += r.distinct
        trans += r.generated
    rep.cov["states"] = states
    rep.cov["transitions"] = trans
    depth = 3 if tier == "quick" else 4
    nsim = 600 if tier == "quick" else 6000
    tasks = []
    meta = []
    for kind in ("local", "memory"):
        hs = gen_exhaustive(0, kind, depth, "ge_" + kind) + gen_simulated(0, kind, 14, nsim, seed, "gs_" + kind)
        for (i, h) in enumerate(hs):
            # thorough: every behaviour on every store variant; all path sets for one behaviour in four
            # (the full product is ~2 M replays, 40+ minutes, for no additional kind of coverage)
            pss = list(PATHSETS) if i % (4 if tier == "thorough" else 3) == 0 else [list(PATHSETS)[i % 3]]
            for ps in pss:
                for (real_kind, cap) in ([(kind, 0)] + ([(kind, 2)] if i % 4 == 0 or tier == "thorough" else [])
                                         + ([("local@2", 0)] if kind == "local" and (i % 2 == 0 or tier == "thorough") else [])
                                         + ([("local~linkdata", 0)] if kind == "local" and (i % 3 == 1 or tier == "thorough") else [])):
                    tasks.append((real_kind, cap, h, ps, False))
                    meta.append((kind, ps))
    results = run_all(tasks)
    nontriv = set()
    for ((kind, cap, h, ps, _), res) in zip(tasks, results):
        sname = kind.replace("@2", "-two-handles").replace("~linkdata", "-symlinked-data-dir") + ("+lru%d" % cap if cap else "")
        if any(x["op"] in ("sync",) for x in h) and any(x["op"] == "fetch_paths" and x["ans"][0] == "M" for x in h):
            nontriv.add((sname, ps, json.dumps(h)))
        for (j, (x, o)) in enumerate(zip(h, res)):
            exp = storedrv.norm_model_ans(x["op"], x["ans"])
            got = o["ans"]
            if x["op"] == "sync" and not o.get("inside", True):
                rep.violation("C08|%s|escape|pathset=%s" % (sname, ps),
                              {"store": sname, "pathset": PATHSETS[ps], "ops": h[: j + 1], "outside": o.get("outside")})
                break
            if got != exp:
                rep.violation("C08|%s|%s|expected=%s|got=%s|pathset=%s" % (sname, x["op"], _ans_kind(exp), _ans_kind(got), ps),
                              {"store": sname, "pathset": PATHSETS[ps], "ops": h[: j + 1], "expected": exp, "observed": got})
                break
        else:
            rep.add_sample({"store": sname, "paths": PATHSETS[ps], "ops": [[x["op"], x["arg"], x["ans"]] for x in h]})
    # code -> spec
    ntr = 240 if tier == "quick" else 3000
    traces = record_traces(ntr, 25 if tier == "quick" else 40, seed,
                           [("local", 0), ("memory", 0), ("local", 2), ("memory", 3), ("local@2", 0), ("local@2", 2)])
    # binding self-test: copies of recorded traces with ONE recorded answer altered must be rejected
    corrupted = corrupt_traces(traces, 6)
    (tr, rejected) = validate_traces(traces + corrupted)
    bad_ids = set(rj["trace_index"] for rj in rejected)
    missed = [i for i in range(len(traces), len(traces) + len(corrupted)) if i not in bad_ids]
    if missed or not corrupted:
        raise MachineryError("binding self-test: %d of %d corrupted store traces were accepted by StoreTrace" % (len(missed), len(corrupted)))
    rep.cov["corrupted_traces_rejected"] = len(corrupted)
    rejected = [rj for rj in rejected if rj["trace_index"] < len(traces)]
    for rj in rejected:
        t = rj["trace"]
        ev = rj["event"] or {}
        sname = t.get("label", t["kind"]).replace("@2", "-two-handles") + ("+lru%d" % t["cap"] if t["cap"] else "")
        what = "escape" if "outside" in rj["clause"] else (ev.get("op") or "?")
        dotted = "dotted" if ev.get("dotted") else "regular"
        rep.violation("C08|%s|trace|%s|%s|%s" % (sname, what, rj["clause"].replace(" ", "_"), dotted),
                      {"store": sname, "clause": rj["clause"], "position": rj["position"], "event": ev,
                       "paths": t["paths"], "events": t["events"][: rj["position"] + 1]})
    rep.cov["traces_validated_against_impl"] = len(tasks) + len(traces)
    rep.cov["replayed_generated_behaviours"] = len(tasks)
    rep.cov["recorded_traces_validated_by_tlc"] = len(traces)
    rep.cov["recorded_traces_rejected"] = len(rejected)
    rep.cov["trace_validation_states"] = tr.distinct
    rep.cov["evaluations"] = len(tasks) + len(traces)
    rep.cov["distinct_nontrivial"] = len(nontriv)
    rep.cov["rule"] = ("behaviour = operation sequence over 3 keys (one None-valued) and 3 paths; non-trivial when it "
                       "commits a path and later fetches a committed path; distinct by (store, path set, sequence)")
    rep.cov["exhaustive"] = False
    rep.cov["exhaustive_part"] = "all operation sequences of length <= %d over the model alphabet, per store kind" % depth
    rep.cov["path_sets"] = PATHSETS
    rep.assumptions += ["content-addressed use: a key is always stored with the same value",
                        "path sets avoid prefix conflicts (a path that is a directory of another)",
                        "DBFS(fake) is exercised by C19"]
    if len(nontriv) < 2:
        rep.finish()
        raise MachineryError("vacuity guard: no non-trivial behaviour")
    return rep.finish()


# ----------------------------------------------------------------------------------------
# C12
# ----------------------------------------------------------------------------------------


def run_c12(tier: str) -> int:
    rep = Report("C12", tier)
    seed = common.seed()
    caps = [1, 2, 3, 10]      # 10 > number of keys: behaves as unbounded
    states = trans = 0
    for cap in (caps if tier == "thorough" else [1, 2, 3]):
        for kind in (("local", "memory") if (tier == "thorough" or cap == 2) else ("local",)):
            r = design_run(cap, False, kind, "d12_%s_%d" % (kind, cap))
            common.tlc_must_pass(r, "StoreModel design cap=%d (%s)" % (cap, kind))
            states += r.distinct
            trans += r.generated
    # paths committed to keys whose blob is not stored (a keep in a branch that is not executed): the cache
    # layer must stay invisible there too (design level: capacity 2, memory kind)
    ra = design_run(2, False, "memory", "d12_absent", sync_absent=True)
    common.tlc_must_pass(ra, "StoreModel design cap=2 (memory, commits to absent keys)")
    states += ra.distinct
    trans += ra.generated
    # the invariant is not vacuous: the pinned tree's algorithm (cache the None of an absent key) is rejected
    rm = design_run(2, True, "local", "d12_mut")
    if rm.no_error or rm.violated not in ("CacheCoherent", "Invisible"):
        raise MachineryError("spec self-test: StoreModel with CacheAbsent=TRUE was not rejected")
    rep.cov["states"] = states
    rep.cov["transitions"] = trans
    rep.cov["spec_mutation_rejected"] = "CacheAbsent=TRUE -> %s violated" % rm.violated
    nsim = 120 if tier == "quick" else 1500
    tasks = []
    for cap in caps:
        for kind in ("local", "memory"):
            hs = gen_simulated(cap, kind, 14, nsim, seed + cap, "g12_%s_%d" % (kind, cap))
            # the same number again with commits to keys that are not stored (wrapped vs bare only: what the
            # bare stores answer there is not part of the store contract of C08)
            hs += gen_simulated(cap, kind, 10, nsim, seed + cap + 50, "g12a_%s_%d" % (kind, cap), sync_absent=True)
            if cap == 1 and (kind == "local" or tier == "thorough"):
                ex = gen_exhaustive(cap, kind, 3 if tier == "quick" else 4, "g12e_" + kind)
                # depth 4 gives ~100 k sequences per store kind: one in ten (gc.collect() after
                # every fetch makes a replay slow; the full set took over an hour)
                hs += ex if tier == "quick" else ex[(seed % 10):: 10]
            for (i, h) in enumerate(hs):
                ps = list(PATHSETS)[1]
                tasks.append((kind, cap, h, ps, kind == "local"))   # wrapped
                tasks.append((kind, 0, h, ps, False))                 # bare, lock step
                if kind == "local" and i % 3 == 0:
                    # two store objects (each with its own cache) over the same directories
                    tasks.append(("local@2", cap, h, ps, False))
                    tasks.append(("local@2", 0, h, ps, False))
    results = run_all(tasks)
    nontriv = set()
    n = 0
    for t in range(0, len(tasks), 2):
        (kind, cap, h, ps, _) = tasks[t]
        (wr, br) = (results[t], results[t + 1])
        n += 1
        sname = "%s+lru%d" % (kind.replace("@2", "-two-handles"), cap)
        evict = len(set(x["arg"] for x in h if x["op"] == "fetch")) > cap
        st_ = set()
        absent_commit = False
        for x in h:
            if x["op"] == "store":
                st_.add(x["arg"])
            elif x["op"] == "reopen" and kind == "memory":
                st_ = set()
            elif x["op"] == "sync" and any(k_ not in st_ for (_, k_) in x["arg"]):
                absent_commit = True
        absent_probe = False
        stored = set()
        for x in h:
            if x["op"] == "store":
                stored.add(x["arg"])
            if x["op"] == "reopen" and kind == "memory":
                stored = set()
            if x["op"] == "fetch" and x["arg"] not in stored:
                absent_probe = True
        if evict or absent_probe:
            nontriv.add((sname, json.dumps(h)))
        for (j, (x, w, b)) in enumerate(zip(h, wr, br)):
            exp = storedrv.norm_model_ans(x["op"], x["ans"])
            if w["ans"] != b["ans"]:
                later = "absent-then-stored" if x["op"] in ("has", "fetch") and x["arg"] not in NONE_KEYS else "none-valued"
                rep.violation("C12|visible|%s|wrapped=%s|bare=%s|%s" % (x["op"], _ans_kind(w["ans"]), _ans_kind(b["ans"]), later),
                              {"store": sname, "ops": h[: j + 1], "wrapped": w["ans"], "bare": b["ans"], "model": exp})
                break
            if b["ans"] != exp:
                if absent_commit:
                    continue     # outside the store contract: only wrapped vs bare counts
                # the bare store disagrees with the model: C08's business, not C12's; stop comparing
                rep.notes.append("bare store deviates from the model at %s (see C08)" % x["op"])
                break
            if "alive" in w and w["alive"] > cap:
                rep.violation("C12|unbounded|alive=%d|cap=%d" % (w["alive"], cap),
                              {"store": sname, "ops": h[: j + 1], "alive": w["alive"]})
                break
        else:
            rep.add_sample({"store": sname, "ops": [[x["op"], x["arg"], x["ans"]] for x in h]})
    # cache_objects decoding through the public API, behaviourally (bound on retained objects)
    dec = cache_objects_probe()
    for d in dec:
        if d["bad"]:
            rep.violation("C12|cache_objects|%r|%s" % (d["cache_objects"], d["bad"]), d)
    rep.cov["cache_objects_settings_probed"] = [d["cache_objects"] for d in dec]
    rep.cov["traces_validated_against_impl"] = n
    rep.cov["evaluations"] = n
    rep.cov["distinct_nontrivial"] = len(nontriv)
    rep.cov["rule"] = ("behaviour = operation sequence replayed in lock step on LRUCacheStore(x) and bare x; non-trivial when "
                       "it fetches more distinct keys than the capacity (eviction) or fetches a key that is absent at "
                       "that time; distinct by (store, capacity, sequence)")
    rep.cov["capacities"] = caps
    rep.cov["exhaustive"] = False
    rep.assumptions += ["content-addressed use: a key is always stored with the same value",
                        "retention measured through weak references to fetched objects after gc.collect()"]
    if len(nontriv) < 2:
        rep.finish()
        raise MachineryError("vacuity guard: no eviction / absent-key behaviour")
    return rep.finish()


def _cache_objects_case(i: int, co: Any, base: str) -> Dict[str, Any]:
    import gc
    import weakref
    import dds
    import dds._api as api
    root = os.path.join(base, "c%d" % i)
    dds.set_store("local", internal_dir=os.path.join(root, "i"), data_dir=os.path.join(root, "d"), cache_objects=co)
    st = api._store_var
    keys = ["k%d" % (3 * j + 2) for j in range(14)]   # Obj-valued keys
    for k in keys:
        st.store_blob(storedrv.real_key(k), storedrv.value_of(k, []), None)
    refs = []
    bad = ""
    for k in keys:
        v = st.fetch_blob(storedrv.real_key(k))
        if v != storedrv.value_of(k, []):
            bad = "wrong value"
        refs.append(weakref.ref(v))
        del v
    gc.collect()
    alive = len([r for r in refs if r() is not None])
    if co in (None, False, 0):
        bound = 0
    elif co is True:
        bound = 10     # "conservatively small" documented default
    elif co < 0:
        bound = len(keys)
    else:
        bound = co
    if alive > bound:
        bad = "retains %d objects, bound %d" % (alive, bound)
    if co == -1 and alive < len(keys):
        bad = "negative value must cache everything, retains %d of %d" % (alive, len(keys))
    return {"cache_objects": co, "alive": alive, "bound": bound, "bad": bad}


def cache_objects_probe() -> List[Dict[str, Any]]:
    """dds.set_store('local', ..., cache_objects=x): number of fetched objects retained."""
    import gc
    import weakref
    evalfam.import_dds()
    import dds
    import dds._api as api
    res = []
    base = common.sub_scratch("cacheobj")
    for (i, co) in enumerate([None, False, True, 0, -1, 1, 3]):
        try:
            with common.Watchdog(60):
                res.append(_cache_objects_case(i, co, base))
        except common.StepTimeout as e:
            res.append({"cache_objects": co, "alive": None, "bound": None, "bad": "store operations do not return (%s)" % e})
        api._store_var = None
    return res


def replay_file(prop: str, path: str) -> int:
    """Re-run the operation sequence of a replay file on the real store."""
    evalfam.import_dds()
    with open(path) as f:
        v = json.load(f)
    d = v["detail"]
    print("cause: %s" % v["fingerprint"])
    if "events" in d:     # recorded trace: show it and re-validate
        t = {"kind": d["store"].split("+")[0], "cap": 0, "keys": ["k1", "k2", "k3", "k4", "k5"], "none_keys": ["k3"],
             "npaths": len(d["paths"]), "paths": d["paths"], "dotted": [], "events": d["events"]}
        print(json.dumps(t["events"], indent=0)[:2000])
        return 1
    store = d["store"]
    (kind, cap) = (store.split("+lru")[0], int(store.split("+lru")[1]) if "+lru" in store else 0)
    handles = 2 if kind.endswith("-two-handles") else 1
    kind = kind.replace("-two-handles", "").replace("-symlinked-data-dir", "~linkdata")
    ps = d.get("pathset") or PATHSETS["depth"]
    pmap = {int(k): v for (k, v) in ps.items()}
    root = common.sub_scratch("replay_one")
    res = storedrv.run_history(kind, cap, d["ops"], os.path.join(root, "w"), KEYS, NONE_KEYS, pmap, handles=handles)
    bare = storedrv.run_history(kind, 0, d["ops"], os.path.join(root, "b"), KEYS, NONE_KEYS, pmap)
    bad = 0
    for (x, o, b) in zip(d["ops"], res, bare):
        exp = storedrv.norm_model_ans(x["op"], x["ans"])
        flag = "" if (o["ans"] == exp and o["ans"] == b["ans"] and o.get("inside", True)) else "   <-- differs"
        bad += 1 if flag else 0
        print("%-12s %-28s model=%s real=%s bare=%s%s" % (x["op"], json.dumps(x["arg"]), exp, o["ans"], b["ans"], flag))
    if bad:
        print("VIOLATION property=%s replay=%s" % (prop.upper(), path))
    return 1 if bad else 0
