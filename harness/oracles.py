"""
Property oracles over (expected history, observed execution) pairs of the DdsEval family.
Each returns a list of (fingerprint, detail) for violating *real* executions; fingerprints
name the abstract cause so that known findings can be matched (DESIGN.md 3.7).
"""
import json
from collections import Counter
from typing import Any, Dict, List, Optional, Tuple

from .shapes import Shape

Viol = Tuple[str, Dict[str, Any]]


def cone_id(c: Any) -> str:
    return json.dumps(c, sort_keys=True)


def last_edit(hist: List[Dict[str, Any]], i: int) -> Optional[Dict[str, Any]]:
    for j in range(i - 1, -1, -1):
        if hist[j]["op"] in ("edit", "revert", "restart"):
            return hist[j]
    return None


def edit_cause(shape: Shape, hist: List[Dict[str, Any]], i: int) -> str:
    """Abstract description of the most recent change before evaluation i."""
    e = last_edit(hist, i)
    if e is None:
        # style switch between consecutive evaluations?
        prev = [h for h in hist[:i] if h["op"] == "eval"]
        if prev and prev[-1]["style"] != hist[i]["style"]:
            return "style-switch"
        return "none" if prev else "first"
    if e["op"] in ("revert", "restart"):
        return e["op"]
    k = e["kind"]
    if k == "var":
        return "var|vtype=%s" % shape.vtype[e["what"]]
    if k == "arg":
        (f, idx) = e["what"]
        s = shape.stmts[f][idx - 1]
        return "arg|a=%s,lay=%s" % (s["a"], s["lay"])
    if k in ("body", "cos", "default"):
        return "%s|%s" % (k, role(shape, e["what"]))
    return k


def role(shape: Shape, f: str) -> str:
    if f == shape.root:
        return "root"
    kept = any(s["k"] == "keep" and s["g"] == f for g in shape.funs for s in shape.stmts[g]) or bool(shape.dpath[f])
    reffed = any(s["k"] == "ref" and s["g"] == f for g in shape.funs for s in shape.stmts[g])
    return ("kept" if kept else "helper") + ("-ref" if reffed else "")


def via_module_attr_refs(shape: Shape, hist, i) -> set:
    """Functions reachable from a function that is passed as a higher-order reference through a
    module attribute (`L.apply(mod.f)`): import form module / module_as and callee in another module."""
    if not str(shape.real.get("import_form", "from")).startswith("module"):
        return set()
    from . import materialize as mat
    prog = hist[i]["prog"]
    mods = mat.module_of(shape, prog["layout"])
    start = set(s["g"] for f in shape.funs for s in shape.stmts[f] if s["k"] == "ref" and mods[s["g"]] != mods[f])
    reach = set(start)
    todo = list(start)
    while todo:
        x = todo.pop()
        for s in shape.stmts[x]:
            if s["k"] in ("call", "ref", "keep") and s["g"] not in reach:
                reach.add(s["g"])
                todo.append(s["g"])
    return reach


def module_attr_tag(shape: Shape, hist, i) -> str:
    """'ref-via-module-attr|' when the most recent change (or, for a first evaluation, the program)
    involves a function only known to the analysis through such a reference."""
    R = via_module_attr_refs(shape, hist, i)
    if not R:
        return ""
    e = last_edit(hist, i)
    if e is None or e["op"] != "edit":
        # a kept site (data function or keep call) below the untracked reference is refused at run
        # time ("this call was not found when analyzing the current evaluation"), also on a first evaluation
        kept_below = any(shape.dpath[f] for f in R) or any(s["k"] == "keep" for f in R for s in shape.stmts[f])
        return "ref-via-module-attr|" if kept_below or e is not None else ""
    if e["kind"] in ("body", "cos", "default") and e["what"] in R:
        return "ref-via-module-attr|"
    if e["kind"] == "var" and any(e["what"] in shape.reads[f] for f in R):
        return "ref-via-module-attr|"
    if e["kind"] == "arg" and e["what"][0] in R:
        return "ref-via-module-attr|"
    return ""


def _detail(shape: Shape, hist, i, o, **kw) -> Dict[str, Any]:
    d = {"shape": shape.to_json(), "history": hist[: i + 1], "failing_eval_index": i,
         "expected": {k: hist[i].get(k) for k in ("result", "log", "err", "style")},
         "observed": {k: o.get(k) for k in ("result", "log", "err", "fatal")}}
    d.update(kw)
    return d


def _norm_err(e):
    """spec error term -> "" (none) | "CODE" (rejected by the analysis) | ["raise", f, cls]"""
    if e in ("", [], None):
        return ""
    if isinstance(e, list) and e and e[0] == "reject":
        return e[1]
    return e


def evals(hist):
    for r in hist:
        if r["op"] == "eval":
            r["err"] = _norm_err(r["err"])
    return [(i, r) for (i, r) in enumerate(hist) if r["op"] == "eval"]


# -- C01 ---------------------------------------------------------------------------------

def c01(shape: Shape, hist, obs, realisation: str = "") -> List[Viol]:
    res: List[Viol] = []
    for (i, rec) in evals(hist):
        o = obs.get(i, {})
        if o.get("fatal"):
            raise RuntimeError("worker failure: %s" % (o["fatal"],))
        if rec["err"] != "":
            continue
        cause = edit_cause(shape, hist, i)
        if o.get("err") is not None:
            e = o["err"]
            res.append(("C01|%srefused|%s|%s|after=%s" % (module_attr_tag(shape, hist, i), e["type"], e.get("code"), cause),
                        _detail(shape, hist, i, o, realisation=realisation)))
            break
        if o.get("result") != rec["result"]:
            stale = any(o.get("result") == r2["result"] for (j, r2) in evals(hist) if j < i)
            res.append(("C01|%s%s|%s" % (module_attr_tag(shape, hist, i), "stale" if stale else "wrong", cause),
                        _detail(shape, hist, i, o, realisation=realisation)))
            break   # later evaluations of this history run on a diverged store
    return res


# -- C02 ---------------------------------------------------------------------------------

def c02(shape: Shape, hist, obs, realisation: str = "", store_kind: str = "local") -> List[Viol]:
    res: List[Viol] = []
    if store_kind == "noop":
        return res
    key_of: Dict[str, Tuple[str, int]] = {}   # cone -> (real key, eval index)
    for (i, rec) in evals(hist):
        o = obs.get(i, {})
        if o.get("fatal"):
            raise RuntimeError("worker failure: %s" % (o["fatal"],))
        if rec["err"] != "" or o.get("err") is not None or o.get("result") != rec["result"]:
            break   # C01's business; what follows runs on a diverged store
        cause = edit_cause(shape, hist, i)
        exp = Counter(rec["log"])
        got = Counter(o.get("log") or [])
        extra = sorted(f for f in got if got[f] > exp.get(f, 0))
        if extra:
            res.append(("C02|recomputed|%s" % cause,
                        _detail(shape, hist, i, o, realisation=realisation, recomputed=extra)))
            break
        # equal cone => equal signature (captured through Store.sync_paths)
        sync = [op for op in (o.get("ops") or []) if op[0] == "sync"]
        if sync:
            real = dict((p, k) for (p, k) in sync[-1][1])
            bad = None
            for (p, c) in rec["req"]:
                cid = cone_id(c)
                if p not in real:
                    continue
                if cid in key_of and key_of[cid][0] != real[p]:
                    bad = (p, key_of[cid], real[p])
                    break
                key_of.setdefault(cid, (real[p], i))
            if bad:
                res.append(("C02|sig-changed|%s" % cause,
                            _detail(shape, hist, i, o, realisation=realisation, path=bad[0],
                                    first_seen_eval=bad[1][1], old_sig=bad[1][0], new_sig=bad[2])))
                break
    return res


def coarser_than_cone(hist, obs) -> int:
    """Informational (never a verdict): number of pairs of kept nodes of one history whose cones differ
    but whose real signatures are equal.  The properties do not forbid it (a library may legitimately
    ignore something value-irrelevant, e.g. comments), but on an implementation that hashes the whole
    text it is zero, and a non-zero count after a change points at a dependency that is no longer hashed."""
    sig_to_cones: Dict[str, set] = {}
    for (i, rec) in evals(hist):
        o = obs.get(i, {})
        if rec["err"] != "" or o.get("err") is not None:
            continue
        sync = [op for op in (o.get("ops") or []) if op[0] == "sync"]
        if not sync:
            continue
        real = dict((p, k) for (p, k) in sync[-1][1])
        for (p, c) in rec["req"]:
            if p in real:
                sig_to_cones.setdefault(real[p], set()).add(cone_id(c))
    return sum(len(cs) - 1 for cs in sig_to_cones.values() if len(cs) > 1)


# -- C04 ---------------------------------------------------------------------------------

def c04(shape: Shape, hist, obs, realisation: str = "", store_kind: str = "local") -> List[Viol]:
    res: List[Viol] = []
    for (i, rec) in evals(hist):
        o = obs.get(i, {})
        if o.get("fatal") or o.get("loads_fatal"):
            raise RuntimeError("worker failure: %s" % (o.get("fatal") or o.get("loads_fatal"),))
        if (o.get("err") or {}).get("setup"):
            # the store of this variant cannot even be configured / the program cannot be imported
            res.append(("C04|store-cannot-be-configured|%s|store=%s" % (o["err"]["type"], store_kind),
                        _detail(shape, hist, i, o, realisation=realisation)))
            return res
        if rec["err"] != "" or o.get("err") is not None or o.get("result") != rec["result"]:
            break
        loads = o.get("loads")
        if loads is None:
            continue
        cause = edit_cause(shape, hist, i)
        kept_now = set(p for (p, _) in rec["req"])
        for (p, v) in rec["served"]:
            lv = loads.get(p)
            which = "kept-now" if p in kept_now else "kept-earlier"
            if lv is None or "err" in lv:
                res.append(("C04|load-failed|%s|%s|store=%s" % (which, (lv or {}).get("err", {}).get("type"), store_kind),
                            _detail(shape, hist, i, o, path=p, load=lv, realisation=realisation)))
                return res
            if lv["value"] != v:
                res.append(("C04|wrong-value|%s|after=%s|store=%s" % (which, cause, store_kind),
                            _detail(shape, hist, i, o, path=p, load=lv, expected_value=v,
                                    realisation=realisation)))
                return res
            # ... and through the file found under the data directory (local store, DBFS full commit)
            fv = (o.get("files") or {}).get(p)
            if fv is not None and ("err" in fv or fv["value"] != v):
                res.append(("C04|file-under-data-dir|%s|%s|store=%s" % (which, "unreadable:" + fv["err"]["type"] if "err" in fv else "wrong-value", store_kind),
                            _detail(shape, hist, i, o, path=p, file=fv, expected_value=v, realisation=realisation)))
                return res
    return res


# -- shared: rejected / failing evaluations ------------------------------------------------

def _mutating_ops(o) -> List[Any]:
    return [op for op in (o.get("ops") or []) if op[0] in ("store", "sync")]


def _check_values(prop: str, shape: Shape, hist, obs, realisation: str, also_log: bool = True,
                  check_code: bool = False) -> List[Viol]:
    """Values as C01, execution counts as C02, and for evaluations the specification rejects:
    a DDS error, nothing executed, nothing written."""
    res: List[Viol] = []
    for (i, rec) in evals(hist):
        o = obs.get(i, {})
        if o.get("fatal"):
            raise RuntimeError("worker failure: %s" % (o["fatal"],))
        cause = edit_cause(shape, hist, i)
        tags = ",".join(shape.tags)
        if isinstance(rec["err"], str) and rec["err"] != "":
            e = o.get("err")
            if e is None:
                res.append(("%s|not-rejected|%s|%s" % (prop, rec["err"], tags),
                            _detail(shape, hist, i, o, realisation=realisation)))
                break
            if not e.get("dds"):
                res.append(("%s|rejected-with|%s|expected-dds-error=%s|%s" % (prop, e["type"], rec["err"], tags),
                            _detail(shape, hist, i, o, realisation=realisation)))
                break
            if check_code and e.get("code") != rec["err"]:
                res.append(("%s|wrong-error-code|expected=%s|got=%s|%s" % (prop, rec["err"], e.get("code"), tags),
                            _detail(shape, hist, i, o, realisation=realisation)))
                break
            if o.get("log") or _mutating_ops(o):
                res.append(("%s|rejected-but-ran|%s|%s" % (prop, rec["err"], tags),
                            _detail(shape, hist, i, o, realisation=realisation, ops=_mutating_ops(o))))
                break
            continue
        if rec["err"] != "":
            continue     # injected failure: C10
        if o.get("err") is not None:
            e = o["err"]
            res.append(("%s|refused|%s|%s|after=%s|%s" % (prop, e["type"], e.get("code"), cause, tags),
                        _detail(shape, hist, i, o, realisation=realisation)))
            break
        exp_res = None if rec["result"] == ["None"] else rec["result"]
        if o.get("result") != exp_res:
            stale = any(o.get("result") == r2["result"] for (j, r2) in evals(hist) if j < i)
            res.append(("%s|%s|%s|%s" % (prop, "stale" if stale else "wrong", cause, tags),
                        _detail(shape, hist, i, o, realisation=realisation)))
            break
        if also_log:
            exp = Counter(rec["log"])
            got = Counter(o.get("log") or [])
            extra = sorted(f for f in got if got[f] > exp.get(f, 0))
            if extra:
                res.append(("%s|recomputed|%s|%s" % (prop, cause, tags),
                            _detail(shape, hist, i, o, realisation=realisation, recomputed=extra)))
                break
    return res


# -- C09 ---------------------------------------------------------------------------------

def c09(shape: Shape, hist, obs, realisation: str = "") -> List[Viol]:
    return _check_values("C09", shape, hist, obs, realisation)


# -- C11 ---------------------------------------------------------------------------------

def c11(shape: Shape, hist, obs, realisation: str = "") -> List[Viol]:
    # fingerprints without the path permutation (tags[2:] of overlap shapes): keep kind + placement
    sh = shape
    if shape.tags and shape.tags[0] in ("overlap", "no-overlap"):
        import copy
        sh = copy.copy(shape)
        sh.tags = shape.tags[:2] + ["npaths:%d" % len(shape.tags[2].split(","))]
    return _check_values("C11", sh, hist, obs, realisation, check_code=True)


# -- C14 ---------------------------------------------------------------------------------

def c14(shape: Shape, hist, obs, realisation: str = "") -> List[Viol]:
    """Values and execution counts as C01/C02 (an edit of non-accepted code must re-execute nothing,
    an edit of accepted code must be seen); a refused evaluation names the non-accepted module."""
    rl = ",".join(x for x in realisation.split(",") if x.startswith("layouts") or x.startswith("accept"))
    if "ext-datafun-called" in shape.tags:
        # the call sits in accepted code but is itself invisible to the analysis: the refusal may
        # come when the call is reached; C14 demands a DDS error naming the module, nothing committed
        res = []
        for (i, rec) in evals(hist):
            o = obs.get(i, {})
            e = o.get("err")
            if e is None or not e.get("dds"):
                res.append(("C14|rejected-with|%s|expected-dds-error=NOT_ACCEPTED|ext-datafun-called|%s" % ((e or {}).get("type"), rl),
                            _detail(shape, hist, i, o, realisation=realisation)))
            elif "vext" not in e.get("msg", ""):
                res.append(("C14|refusal-does-not-name-module|ext-datafun-called", _detail(shape, hist, i, o, realisation=realisation)))
            elif [op for op in (o.get("ops") or []) if op[0] == "sync"]:
                res.append(("C14|refused-but-committed|ext-datafun-called", _detail(shape, hist, i, o, realisation=realisation)))
            if res:
                break
        return res
    res = _check_values("C14", shape, hist, obs, realisation)
    res = [("%s|%s" % (fp, rl), d) for (fp, d) in res]
    if res:
        return res
    key_of: Dict[str, str] = {}
    for (i, rec) in evals(hist):
        o = obs.get(i, {})
        if rec["err"] == "NOT_ACCEPTED" and "ext-keep" not in shape.tags:
            msg = (o.get("err") or {}).get("msg", "")
            if "vext" not in msg:
                res.append(("C14|refusal-does-not-name-module|%s" % ",".join(shape.tags),
                            _detail(shape, hist, i, o, realisation=realisation)))
                break
        if rec["err"] != "":
            continue
        sync = [op for op in (o.get("ops") or []) if op[0] == "sync"]
        if sync:
            real = dict((p, k) for (p, k) in sync[-1][1])
            for (p, c) in rec["req"]:
                cid = cone_id(c)
                if p in real:
                    if cid in key_of and key_of[cid] != real[p]:
                        res.append(("C14|sig-changed|%s|%s" % (edit_cause(shape, hist, i), rl),
                                    _detail(shape, hist, i, o, realisation=realisation, path=p)))
                        return res
                    key_of.setdefault(cid, real[p])
    return res


# -- C18 ---------------------------------------------------------------------------------

def c18(shape: Shape, hist, obs, obs_plain, realisation: str = "") -> List[Viol]:
    """obs: replay with dds_export_graph on every dds.eval; obs_plain: the same history without."""
    res: List[Viol] = []
    tags = ",".join(shape.tags)
    for (i, rec) in evals(hist):
        (o, q) = (obs.get(i, {}), obs_plain.get(i, {}))
        if o.get("fatal") or q.get("fatal"):
            raise RuntimeError("worker failure: %s" % (o.get("fatal") or q.get("fatal"),))
        if rec["err"] != "" or rec["style"] != "eval":
            continue
        if q.get("err") is not None:
            break      # the evaluation itself is refused: not C18's business
        if o.get("err") is not None:
            res.append(("C18|export-fails|%s|%s" % (o["err"]["type"], tags), _detail(shape, hist, i, o, realisation=realisation)))
            break
        sy = lambda x: [op for op in (x.get("ops") or []) if op[0] == "sync"]
        if o.get("result") != q.get("result") or sy(o) != sy(q):
            res.append(("C18|export-perturbs|%s" % tags, _detail(shape, hist, i, o, realisation=realisation, without=q.get("result"))))
            break
        g = o.get("graph") or {}
        if g.get("missing") or "nodes" not in g:
            res.append(("C18|no-graph-file|%s" % tags, _detail(shape, hist, i, o, realisation=realisation)))
            break
        exp = rec["graph"]
        nodes = set(g["nodes"])
        solid = set((u, v) for (u, v, st) in g["edges"] if st == "solid")
        dashed = set((u, v) for (u, v, st) in g["edges"] if st == "dashed")
        other = set((u, v, st) for (u, v, st) in g["edges"] if st not in ("solid", "dashed"))
        e_nodes = set(exp["nodes"])
        e_solid = set((u, v) for (u, v) in exp["solid"])
        e_dashed = set((u, v) for (u, v) in exp["dashed"])
        e_dotted = set((u, v) for (u, v) in exp["dotted"])
        det = lambda **kw: _detail(shape, hist, i, o, realisation=realisation, expected_graph=exp, observed_graph=g, **kw)
        if not e_nodes <= nodes:
            res.append(("C18|missing-node|%s" % tags, det(missing=sorted(e_nodes - nodes))))
        elif [n for n in nodes - e_nodes if any(n in (u, v) for (u, v, _) in g["edges"])]:
            # a further node is only a finding when an edge touches it (the statement fixes which paths must
            # appear and which edges may exist; an isolated extra box contradicts neither)
            res.append(("C18|extra-node|%s" % tags, det(extra=sorted(nodes - e_nodes))))
        elif e_solid - solid:
            res.append(("C18|missing-solid-edge|%s" % tags, det(missing=sorted(e_solid - solid))))
        elif solid - e_solid:
            res.append(("C18|extra-solid-edge|%s" % tags, det(extra=sorted(solid - e_solid))))
        elif e_dashed - dashed:
            res.append(("C18|missing-dashed-edge|%s" % tags, det(missing=sorted(e_dashed - dashed))))
        elif dashed - e_dashed:
            res.append(("C18|extra-dashed-edge|%s" % tags, det(extra=sorted(dashed - e_dashed))))
        else:
            bad = sorted(x for x in other if x[2] != "dotted" or (x[0], x[1]) not in e_dotted)
            if bad:
                res.append(("C18|unexpected-further-edge|%s" % tags, det(extra=bad)))
            else:
                # acyclic
                E = solid | dashed | set((u, v) for (u, v, _) in other)
                succ: Dict[str, set] = {}
                for (u, v) in E:
                    succ.setdefault(u, set()).add(v)
                def reach(a):
                    seen = set(); st = [a]
                    while st:
                        x = st.pop()
                        for y in succ.get(x, ()):
                            if y not in seen:
                                seen.add(y); st.append(y)
                    return seen
                if any(n in reach(n) for n in nodes):
                    res.append(("C18|cyclic-graph|%s" % tags, det()))
        if res:
            break
    return res


# -- C10 ---------------------------------------------------------------------------------

def c10(shape: Shape, hist, obs, realisation: str = "") -> List[Viol]:
    res: List[Viol] = []
    for (i, rec) in evals(hist):
        o = obs.get(i, {})
        if o.get("fatal"):
            raise RuntimeError("worker failure: %s" % (o["fatal"],))
        if isinstance(rec["err"], list) and rec["err"][0] == "raise":
            (_, f, cls) = rec["err"]
            where = "%s,%s" % (role(shape, f), cls)
            e = o.get("err")
            if e is None:
                res.append(("C10|swallowed|%s" % where, _detail(shape, hist, i, o, realisation=realisation)))
                break
            if not e.get("injected"):
                res.append(("C10|not-same-object|%s|got=%s" % (where, e["type"]),
                            _detail(shape, hist, i, o, realisation=realisation)))
                break
            stores = [op for op in (o.get("ops") or []) if op[0] == "store"]
            syncs = [op for op in (o.get("ops") or []) if op[0] == "sync"]
            if syncs:
                res.append(("C10|paths-committed|%s" % where,
                            _detail(shape, hist, i, o, realisation=realisation, sync=syncs)))
                break
            # blobs are self-describing terms: the stored values name their function
            stored_funs = sorted(op[2][0] for op in stores if isinstance(op[2], list) and op[2])
            exp_funs = sorted(c[1] for c in rec["stored"])
            # only sub-results that completed may be stored (the property allows reusing them, it does not
            # demand that they are kept): nothing of the failing function or of those waiting for it
            extra_stored = list((Counter(stored_funs) - Counter(exp_funs)).elements())
            if extra_stored:
                res.append(("C10|stored-blobs|%s|expected-at-most=%s|got=%s" % (where, exp_funs, stored_funs),
                            _detail(shape, hist, i, o, realisation=realisation)))
                break
            if o.get("ctx_clean") is False:
                res.append(("C10|context-left-active|%s" % where, _detail(shape, hist, i, o, realisation=realisation)))
                break
            if Counter(o.get("log") or []) != Counter(rec["log"]):
                res.append(("C10|exec-log|%s" % where, _detail(shape, hist, i, o, realisation=realisation)))
                break
            continue
        if rec["err"] != "":
            continue
        # a normal evaluation (before or after a failed one)
        after_fail = any(isinstance(r2["err"], list) for (j, r2) in evals(hist) if j < i)
        tag = "after-failure" if after_fail else "before-failure"
        if o.get("err") is not None:
            res.append(("C10|next-eval-refused|%s|%s" % (tag, o["err"]["type"]),
                        _detail(shape, hist, i, o, realisation=realisation)))
            break
        if o.get("result") != rec["result"]:
            res.append(("C10|next-eval-wrong-value|%s" % tag, _detail(shape, hist, i, o, realisation=realisation)))
            break
        # the paths an evaluation commits are its own (nothing left over from an earlier, failed, one)
        own = set(p for (p, _) in rec["req"])
        synced = set(p for op in (o.get("ops") or []) if op[0] == "sync" for (p, _) in op[1])
        if synced - own:
            res.append(("C10|next-eval-commits-foreign-paths|%s" % tag,
                        _detail(shape, hist, i, o, realisation=realisation, foreign=sorted(synced - own))))
            break
        exp = Counter(rec["log"])
        got = Counter(o.get("log") or [])
        if got != exp and after_fail:
            # "as if the failed one had not happened, apart from reusing sub-results that did complete":
            # re-executing a sub-result that completed in a failed evaluation is allowed, serving something
            # that never completed, or executing anything else again, is not
            completed_in_failed = set(c[1] for (j, r2) in evals(hist) if j < i and isinstance(r2["err"], list) for c in r2["stored"])
            more = set(f for f in got if got[f] > exp.get(f, 0))
            less = set(f for f in exp if got.get(f, 0) < exp[f])
            kind = ""
            if less:
                kind = "served-uncompleted"
            elif more - completed_in_failed:
                kind = "re-executed-unrelated"
            if kind:
                res.append(("C10|next-eval-exec|%s|%s" % (tag, kind), _detail(shape, hist, i, o, realisation=realisation)))
                break
    return res


# -- C15 ---------------------------------------------------------------------------------

def c15(shape: Shape, hist, obs, realisation: str = "") -> List[Viol]:
    res: List[Viol] = []
    key_of: Dict[str, str] = {}
    for (i, rec) in evals(hist):
        o = obs.get(i, {})
        if o.get("fatal"):
            raise RuntimeError("worker failure: %s" % (o["fatal"],))
        st = rec.get("stages", 5)
        if rec["err"] != "":
            continue
        if o.get("err") is not None:
            res.append(("C15|refused|stages=%d|%s" % (st, o["err"]["type"]), _detail(shape, hist, i, o, realisation=realisation)))
            break
        exp_res = None if rec["result"] == ["None"] else rec["result"]
        if o.get("result") != exp_res:
            res.append(("C15|wrong-value|stages=%d" % st, _detail(shape, hist, i, o, realisation=realisation)))
            break
        stores = [op for op in (o.get("ops") or []) if op[0] == "store"]
        syncs = [op for op in (o.get("ops") or []) if op[0] == "sync"]
        if st < 3 and (o.get("log") or stores or syncs):
            res.append(("C15|dry-run-not-pure|stages=%d|ran=%s,stored=%d,committed=%d" % (st, bool(o.get("log")), len(stores), len(syncs)),
                        _detail(shape, hist, i, o, realisation=realisation)))
            break
        if st < 5 and syncs:
            res.append(("C15|committed-without-commit-stage|stages=%d" % st, _detail(shape, hist, i, o, realisation=realisation)))
            break
        if st >= 3:
            exp = Counter(rec["log"])
            got = Counter(o.get("log") or [])
            if any(got[f] > exp.get(f, 0) for f in got):
                res.append(("C15|recomputed|stages=%d" % st, _detail(shape, hist, i, o, realisation=realisation)))
                break
            if len(stores) != len(rec["stored"]) and shape.name:
                res.append(("C15|stored-blobs|stages=%d|expected=%d|got=%d" % (st, len(rec["stored"]), len(stores)),
                            _detail(shape, hist, i, o, realisation=realisation)))
                break
        # signatures of the full evaluations are those of the unrestricted history
        if syncs:
            real = dict((p, k) for (p, k) in syncs[-1][1])
            for (p, c) in rec["req"]:
                cid = cone_id(c)
                if p in real:
                    if cid in key_of and key_of[cid] != real[p]:
                        res.append(("C15|sig-changed|after-restricted-run", _detail(shape, hist, i, o, realisation=realisation)))
                        return res
                    key_of.setdefault(cid, real[p])
    return res
