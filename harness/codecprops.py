"""
C17 - results are read back with the codec that wrote them; text and bytes verbatim.
spec/StoreCodec.tla gives the behaviours (register user codecs, store, fetch, new process) and
the expected writer / reader of every blob; replay on the real LocalFileStore with instrumented
user codecs, several values per type, raw blob bytes inspected.
"""
import json
import multiprocessing
import os
import shutil
import sys
from pathlib import PurePath
from typing import Any, Dict, List, Optional, Tuple

from . import common, evalfam
from .common import MachineryError, Rec, Report, tlax


class T(object):
    """A user type with its own codec."""

    def __init__(self, payload: str):
        self.payload = payload

    def __eq__(self, o: Any) -> bool:
        return isinstance(o, T) and o.payload == self.payload

    def __hash__(self) -> int:
        return hash(self.payload)


class PlainObj(object):
    def __init__(self, x: Any):
        self.x = x

    def __eq__(self, o: Any) -> bool:
        return isinstance(o, PlainObj) and o.x == self.x

    def __hash__(self) -> int:
        return 1


TYPE_T = __name__ + ".T"
TYPES = ["str", "bytes", "NoneType", "object", "pandas.core.frame.DataFrame", TYPE_T]
CODECS = {
    "local.string": dict(kind="file", handles=["str"]),
    "local.bytes": dict(kind="file", handles=["bytes", "bytearray"]),
    "local.pickle": dict(kind="file", handles=["NoneType", "object"]),
    "local.pandas": dict(kind="file", handles=["pandas.DataFrame", "pandas.core.frame.DataFrame"]),
    "user.T": dict(kind="file", handles=[TYPE_T]),
    "user.str": dict(kind="codec", handles=["str"]),
    "user.filestr": dict(kind="file", handles=["str", TYPE_T]),
}
DEFAULTS = ["local.string", "local.bytes", "local.pickle", "local.pandas"]
USER = ["user.T", "user.str", "user.filestr"]
KEYS = {"k_str": "str", "k_bytes": "bytes", "k_none": "NoneType", "k_obj": "object",
        "k_df": "pandas.core.frame.DataFrame", "k_T": TYPE_T, "k_str2": "str"}

LOG: List[Tuple[str, str]] = []


def conf(max_ops: int, gen: bool) -> str:
    lines = ["---- MODULE CodecConf ----", "EXTENDS TLC",
             "Types == %s" % tlax(set(TYPES)),
             "Defaults == %s" % tlax(DEFAULTS),
             "UserCodecs == %s" % tlax(set(USER)),
             "CodecTable == %s" % tlax({r: Rec(ref=r, kind=c["kind"], handles=set(h for h in c["handles"] if h in TYPES))
                                        for (r, c) in CODECS.items()}),
             "Codec(r) == CodecTable[r]",
             "Keys == %s" % tlax(set(KEYS)),
             "TypeOf == %s" % tlax(dict(KEYS)),
             "MaxOps == %d" % max_ops,
             "GenMode == %s" % tlax(gen),
             "====", ""]
    return "\n".join(lines)


def value_sets() -> Dict[str, List[Any]]:
    import pandas
    big = "x" * (1 << 20)
    return {
        "k_str": ["", "héllo wörld ü中\n", big],
        "k_str2": ["line1\r\nline2\rline3\n", "a|b\r", "\x00nul\r\n"],
        "k_bytes": [b"", b"\x00\xff\x80abc", bytes(range(256)) * 4096],
        "k_none": [None, None, None],
        "k_obj": [("t", 1, 2.5), {"k": [1, 2, {"z": None}]}, PlainObj([1, "ü"])],
        "k_df": [pandas.DataFrame({"x": [1, 2], "y": ["a", "ü"]}), pandas.DataFrame({"x": []}),
                 pandas.DataFrame({"z": [1.5, None]})],
        "k_T": [T(""), T("payload ü"), T("p" * 5000)],
    }


def _make_user_codecs() -> Dict[str, Any]:
    from dds.structures import FileCodecProtocol, CodecProtocol, ProtocolRef

    class UT(FileCodecProtocol):
        def ref(self):
            return ProtocolRef("user.T")

        def handled_types(self):
            return [TYPE_T]

        def serialize_into(self, blob, loc):
            LOG.append(("ser", "user.T"))
            with open(str(loc), "wb") as f:
                f.write(b"UT:" + blob.payload.encode("utf-8"))

        def deserialize_from(self, loc):
            LOG.append(("deser", "user.T"))
            with open(str(loc), "rb") as f:
                return T(f.read()[3:].decode("utf-8"))

    class UStr(CodecProtocol):
        def ref(self):
            return ProtocolRef("user.str")

        def handled_types(self):
            return ["str"]

        def serialize_into(self, blob, loc):
            LOG.append(("ser", "user.str"))
            with open(str(loc), "wb") as f:
                f.write(b"USTR:" + blob.encode("utf-8"))

        def deserialize_from(self, loc):
            LOG.append(("deser", "user.str"))
            with open(str(loc), "rb") as f:
                return f.read()[5:].decode("utf-8")

    class UFileStr(FileCodecProtocol):
        """a file codec that also claims str and T: must only fill gaps"""
        def ref(self):
            return ProtocolRef("user.filestr")

        def handled_types(self):
            return ["str", TYPE_T]

        def serialize_into(self, blob, loc):
            LOG.append(("ser", "user.filestr"))
            with open(str(loc), "wb") as f:
                f.write(b"UFS:" + (blob if isinstance(blob, str) else blob.payload).encode("utf-8"))

        def deserialize_from(self, loc):
            LOG.append(("deser", "user.filestr"))
            with open(str(loc), "rb") as f:
                return T(f.read()[4:].decode("utf-8"))

    return {"user.T": UT(), "user.str": UStr(), "user.filestr": UFileStr()}


def _same(a: Any, b: Any) -> bool:
    import pandas
    if isinstance(a, pandas.DataFrame) or isinstance(b, pandas.DataFrame):
        return isinstance(a, pandas.DataFrame) and isinstance(b, pandas.DataFrame) and a.equals(b)
    return type(a) is type(b) and a == b


def _segment(args) -> List[Dict[str, Any]]:
    """ops of one process (between newproc boundaries) on the local store in `root`."""
    (root, ops, vi) = args[:3]
    two = len(args) > 3 and args[3]
    import dds
    import dds.codec as dc
    import dds._api as api
    dc._registry = None          # a fresh process starts from the default registry
    dds.set_store("local", internal_dir=os.path.join(root, "internal"), data_dir=os.path.join(root, "data"))
    st = api._store()
    handles = [st]
    if two:
        # a second live store object over the same directories; the operations alternate between the two
        from dds.store import LocalFileStore
        handles.append(LocalFileStore(os.path.join(root, "internal"), os.path.join(root, "data")))
    nop = [0]
    user = _make_user_codecs()
    vals = value_sets()
    from . import storedrv
    out = []
    for op in ops:
        del LOG[:]
        o: Dict[str, Any] = {}
        if op["op"] in ("store", "fetch"):
            nop[0] += 1
            st = handles[nop[0] % len(handles)]
        try:
            common.arm(60)
            if op["op"] == "register":
                c = user[op["arg"]]
                reg = st.codec_registry()
                if CODECS[op["arg"]]["kind"] == "codec":
                    reg.add_codec(c)
                else:
                    reg.add_file_codec(c)
                o["ans"] = ["ok"]
            elif op["op"] == "store":
                k = op["arg"]
                key = storedrv.real_key(k)
                st.store_blob(key, vals[k][vi], None)
                with open(os.path.join(root, "internal", "blobs", key + ".meta")) as f:
                    ref = json.load(f)["protocol"]
                with open(os.path.join(root, "internal", "blobs", key), "rb") as f:
                    raw = f.read()
                o["ans"] = ["writer", ref]
                v = vals[k][vi]
                o["verbatim"] = (raw == v.encode("utf-8")) if isinstance(v, str) else ((raw == bytes(v)) if isinstance(v, (bytes, bytearray)) else None)
                o["instr"] = list(LOG)
            elif op["op"] == "fetch":
                k = op["arg"]
                from dds.structures import DDSException
                try:
                    r = st.fetch_blob(storedrv.real_key(k))
                    deser = [x[1] for x in LOG if x[0] == "deser"]
                    with open(os.path.join(root, "internal", "blobs", storedrv.real_key(k) + ".meta")) as f:
                        ref = json.load(f)["protocol"]
                    o["ans"] = ["reader", deser[0] if deser else ref]
                    o["equal"] = _same(r, vals[k][vi])
                    o["instr"] = list(LOG)
                except DDSException as e:
                    o["ans"] = [e.error_code.name if e.error_code is not None else "DDSException"]
        except BaseException as e:
            o["ans"] = ["EXC", type(e).__name__, str(e)[:200]]
        out.append(o)
    common.disarm()
    return out


def _replay(a) -> Dict[str, Any]:
    (idx, hist, vi, base) = a[:4]
    two = len(a) > 4 and a[4]
    root = os.path.join(base, "c%d" % idx)
    os.makedirs(root)
    segs: List[List[Dict[str, Any]]] = [[]]
    for op in hist:
        if op["op"] == "newproc":
            segs.append([])
        else:
            segs[-1].append(op)
    answers: List[Any] = []
    try:
        for (si, seg) in enumerate(segs):
            if si > 0:
                answers.append({"ans": ["ok"]})
            if not seg:
                continue
            (r, w) = os.pipe()
            pid = os.fork()
            if pid == 0:
                try:
                    os.close(r)
                    res = _segment((root, seg, vi, two))
                    with os.fdopen(w, "wb") as f:
                        f.write(json.dumps(res).encode())
                finally:
                    common.cov_save()
                    os._exit(0)
            os.close(w)
            with os.fdopen(r, "rb") as f:
                data = f.read()
            os.waitpid(pid, 0)
            if not data:
                return {"idx": idx, "fatal": "process died"}
            answers += json.loads(data.decode())
    finally:
        shutil.rmtree(root, ignore_errors=True)
    return {"idx": idx, "answers": answers, "fatal": None}


def run_c17(tier: str) -> int:
    rep = Report("C17", tier)
    evalfam.import_dds()
    d = common.stage_spec({"CodecConf.tla": conf(1000000, False)}, "codec_d")
    r = common.run_tlc(d, "StoreCodec.tla", "StoreCodec_design.cfg", timeout=900)
    common.tlc_must_pass(r, "StoreCodec design")
    rep.cov["states"] = r.distinct
    rep.cov["transitions"] = r.generated
    d3 = common.stage_spec({"CodecConf.tla": conf(9, True)}, "codec_g")
    rs = common.run_tlc(d3, "StoreCodec.tla", "StoreCodec_gen.cfg", workers=1, timeout=600,
                        extra=["-simulate", "num=%d" % (500 if tier == "quick" else 6000), "-depth", "10", "-seed", str(common.seed() + 3)])
    if rs.rc != 0:
        raise MachineryError("StoreCodec simulation failed:\n" + rs.tail(20))
    hs = rs.printed("HIST")
    base = common.sub_scratch("codec")
    # every fourth behaviour runs over two live store objects per process (operations alternate)
    tasks = [(i, h, i % 3, base, i % 4 == 3) for (i, h) in enumerate(hs)]
    with multiprocessing.get_context("fork").Pool(common.NCPU) as pool:
        outs = pool.map(_replay, tasks, chunksize=4)
    n = 0
    nontriv = set()
    for (t, out) in zip(tasks, outs):
        (_, h, vi, _, two_) = t
        if out["fatal"]:
            raise MachineryError("C17 replay: " + out["fatal"])
        n += 1
        if any(o["op"] == "fetch" for o in h) and any(o["op"] in ("register", "newproc") for o in h):
            nontriv.add(json.dumps([[o["op"], o["arg"]] for o in h]) + str(vi))
        for (j, (o, a)) in enumerate(zip(h, out["answers"])):
            exp = o["ans"]
            ctx = ("after-newproc" if any(x["op"] == "newproc" for x in h[:j]) else "same-process") + (",two-live-stores" if two_ else "")
            if a["ans"] != exp:
                rep.violation("C17|%s|%s|expected=%s|got=%s|%s" % (o["op"], KEYS.get(o["arg"], o["arg"]), "/".join(exp), "/".join(str(x) for x in a["ans"][:2]), ctx),
                              {"ops": h[: j + 1], "expected": exp, "observed": a, "value_index": vi, "two_live_stores": two_})
                break
            if o["op"] == "fetch" and exp[0] == "reader" and not a.get("equal"):
                rep.violation("C17|fetch-not-equal|%s|reader=%s" % (KEYS[o["arg"]], exp[1]), {"ops": h[: j + 1], "observed": a, "value_index": vi, "two_live_stores": two_})
                break
            if o["op"] == "store" and exp[1] in ("local.string", "local.bytes") and a.get("verbatim") is not True:
                rep.violation("C17|not-verbatim|%s" % KEYS[o["arg"]], {"ops": h[: j + 1], "observed": a, "value_index": vi, "two_live_stores": two_})
                break
        else:
            rep.add_sample({"ops": [[o["op"], o["arg"], o["ans"]] for o in h], "value_index": vi})
    # end to end: the file under the data directory is the verbatim text / bytes
    e2e = end_to_end(rep)
    rep.cov["traces_validated_against_impl"] = n
    rep.cov["end_to_end_keeps"] = e2e
    rep.cov["evaluations"] = n
    rep.cov["distinct_nontrivial"] = len(nontriv)
    rep.cov["rule"] = ("behaviour = simulated sequence (length 9) of register(user codec) / store(key of a type) / fetch / new process; "
                       "replayed on LocalFileStore with one of three values per type (empty, non-ASCII, large); non-trivial when "
                       "a fetch follows a registration or a process change")
    rep.cov["exhaustive"] = False
    rep.assumptions += ["byte-level fidelity of pickle / parquet is outside the TLA+ model: the spec states which codec and "
                        "verbatim-or-not, equality of the fetched value is checked on the real values",
                        "two different codecs claiming the same reference are out of scope"]
    if len(nontriv) < 2:
        rep.finish()
        raise MachineryError("vacuity guard")
    return rep.finish()


def _e2e_str():
    return "text ü中\nline2\r\nline3\r"


def _e2e_bytes():
    return b"\x00\x01raw\xff"


def end_to_end(rep: Report) -> int:
    import dds
    root = common.sub_scratch("codec_e2e")
    dds.set_store("local", internal_dir=os.path.join(root, "i"), data_dir=os.path.join(root, "d"))
    dds.accept_module(__name__)
    n = 0
    for (p, f, raw) in (("/out/text.txt", _e2e_str, _e2e_str().encode("utf-8")), ("/out/deep/er/raw.bin", _e2e_bytes, _e2e_bytes())):
        v = dds.keep(p, f)
        n += 1
        loc = os.path.join(root, "d", *[s for s in p.split("/") if s])
        try:
            with open(loc, "rb") as fh:
                got = fh.read()
        except OSError as e:
            rep.violation("C17|data-dir-file-unreadable|%s" % type(e).__name__, {"path": p, "location": loc})
            continue
        if got != raw or v != f():
            rep.violation("C17|data-dir-file-not-verbatim|%s" % type(raw).__name__, {"path": p, "expected": repr(raw), "got": repr(got[:100])})
    return n


def replay_file(prop: str, path: str) -> int:
    evalfam.import_dds()
    with open(path) as f:
        v = json.load(f)
    d = v["detail"]
    print("cause: %s" % v["fingerprint"])
    if "ops" not in d:
        print(json.dumps(d)[:1000])
        return 1
    out = _replay((0, d["ops"], d.get("value_index", 0), common.sub_scratch("replay17"), bool(d.get("two_live_stores"))))
    bad = 0
    for (o, a) in zip(d["ops"], out.get("answers", [])):
        flag = "" if a["ans"] == o["ans"] and a.get("equal", True) else "  <-- differs"
        bad += 1 if flag else 0
        print("%-9s %-14s expected=%s observed=%s%s" % (o["op"], o["arg"], o["ans"], a, flag))
    if bad:
        print("VIOLATION property=%s replay=%s" % (prop, path))
    return 1 if bad else 0
