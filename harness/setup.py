"""setup_cmd: offline build of the framework = syntax/semantic check of every TLA+ module with
SANY (each with the generated companion modules it extends), PlusCal translation where needed,
smoke import of /repo."""
import glob
import os
import subprocess
import sys

from . import common, runconf, shapes as shp


def companions():
    """top-level module -> generated companion modules needed to parse it"""
    from . import storeconf
    eval_files = {
        "ShapeData.tla": shp.shape_data_module(shp.quick_shapes() + shp.load_shapes() + shp.boundary_shapes()),
        "RunConf.tla": runconf.runconf(1, "local", "package", [["eval"]], False, [1], ["one"]),
    }
    from . import fsconf, valuesconf
    res = {
        "LocalStoreFSMC.tla": {"FsConf.tla": fsconf.module("crash_first_keep", "atomic")},
        "FsTrace.tla": {},
        "LocalStoreFSTrace.tla": {"FsConf.tla": fsconf.module("conform_nested", "atomic")},
        "SigTrace.tla": {},
        "EvalProto.tla": {},
        "StoreCodec.tla": {"CodecConf.tla": codecconf()},
        "StoreDbfs.tla": {"DbfsConf.tla": dbfsconf()},
        "StoreViews.tla": {"ViewsConf.tla": viewsconf()},
        "DdsValues.tla": {"ValuesConf.tla": valuesconf.module("values", 1)},
        "ValuesTrace.tla": {"ValuesConf.tla": valuesconf.module("values", 1)},
        "DdsEval.tla": eval_files,
        "StoreModel.tla": {"StoreConf.tla": storeconf.design(["k1", "k2"], ["k2"], 2, 1, False, "local", 3, False)},
        "StoreTrace.tla": {"StoreConf.tla": storeconf.trace()},
    }
    try:
        from . import extra_setup
        res.update(extra_setup.companions())
    except ImportError:
        pass
    return res


def viewsconf() -> str:
    from . import viewprops
    return viewprops.conf(3, False)


def codecconf() -> str:
    from . import codecprops
    return codecprops.conf(3, False)


def dbfsconf() -> str:
    from . import dbfsprops
    return dbfsprops.conf("full", 3, False)


def fsconf_mod() -> str:
    from . import fsconf
    return fsconf.module("crash_first_keep", "atomic")


def _strip_hash(s: str) -> str:
    import re
    return re.sub(r"\\\* (BEGIN|END) TRANSLATION.*", "", s)


def main() -> int:
    rc = 0
    comp = companions()
    tops = sorted(os.path.basename(f) for f in glob.glob(os.path.join(common.SPEC_DIR, "*.tla")))
    for mod in tops:
        if mod not in comp:
            # library modules are checked through the modules that extend them
            continue
        d = common.stage_spec(comp[mod], "setup_" + mod[:-4])
        p = subprocess.run(["java", "-cp", common.TLA_CP, "tla2sany.SANY", mod], cwd=d,
                           stdout=subprocess.PIPE, stderr=subprocess.STDOUT)
        out = p.stdout.decode()
        ok = p.returncode == 0 and "Semantic errors" not in out and "Parse Error" not in out and "Fatal error" not in out
        print("SANY %-24s %s" % (mod, "ok" if ok else "FAILED"))
        if not ok:
            print(out[-1500:])
            rc = 1
    unchecked = [m for m in tops if m not in comp]
    if unchecked:
        print("library modules (checked through their users): %s" % ", ".join(unchecked))
    # the committed PlusCal translation is up to date
    d = common.stage_spec({"FsConf.tla": fsconf_mod()}, "setup_pcal")
    before = open(os.path.join(d, "LocalStoreFS.tla")).read()
    p = subprocess.run(["java", "-cp", common.TLA_CP, "pcal.trans", "-nocfg", "LocalStoreFS.tla"], cwd=d,
                       stdout=subprocess.PIPE, stderr=subprocess.STDOUT)
    after = open(os.path.join(d, "LocalStoreFS.tla")).read()
    same = _strip_hash(before) == _strip_hash(after)
    print("pcal LocalStoreFS.tla           %s" % ("translation up to date" if p.returncode == 0 and same else "STALE/FAILED"))
    if p.returncode != 0 or not same:
        print(p.stdout.decode()[-800:])
        rc = 1
    sys.path.insert(0, common.REPO)
    import dds  # noqa
    print("import dds %s from %s" % (dds.__version__, os.path.dirname(dds.__file__)))
    os.makedirs(common.EVIDENCE_DIR, exist_ok=True)
    return rc


if __name__ == "__main__":
    sys.exit(main())
