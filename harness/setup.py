"""setup_cmd: offline build of the framework = syntax/semantic check of every TLA+ module with
SANY (generated constants included), PlusCal translation where needed, smoke import of /repo."""
import glob
import os
import subprocess
import sys

from . import common, runconf, shapes as shp


def main() -> int:
    files = {
        "ShapeData.tla": shp.shape_data_module(shp.quick_shapes()),
        "RunConf.tla": runconf.runconf(1, "local", "package", [["eval"]], False, [1], ["one"]),
    }
    d = common.stage_spec(files, "setup")
    rc = 0
    for gen in sorted(glob.glob(os.path.join(common.VERIF, "harness", "gen_*.py"))):
        pass
    for f in sorted(glob.glob(os.path.join(d, "*.tla"))):
        mod = os.path.basename(f)
        if mod in SKIP_SANY:
            continue
        p = subprocess.run(["java", "-cp", common.TLA_CP, "tla2sany.SANY", mod], cwd=d,
                           stdout=subprocess.PIPE, stderr=subprocess.STDOUT)
        out = p.stdout.decode()
        ok = p.returncode == 0 and "Semantic errors" not in out and "Parse Error" not in out and "Fatal error" not in out
        print("SANY %-24s %s" % (mod, "ok" if ok else "FAILED"))
        if not ok:
            print(out[-1500:])
            rc = 1
    sys.path.insert(0, common.REPO)
    import dds  # noqa
    print("import dds %s from %s" % (dds.__version__, os.path.dirname(dds.__file__)))
    os.makedirs(common.EVIDENCE_DIR, exist_ok=True)
    return rc


# modules that need generated companions not produced by this smoke setup
SKIP_SANY = set()

if __name__ == "__main__":
    sys.exit(main())
