"""In-process fake of the dbutils.fs API used by dds.codecs.databricks.DBFSStore:
cp / put / head / rm over a directory that stands for the DBFS root; file:// paths pass
through to the local file system.  Its semantics are an assumption listed in evidence."""
import os
import shutil
from typing import Any, List


class _FS(object):
    def __init__(self, root: str):
        self.root = root
        self.calls: List[Any] = []
        os.makedirs(root, exist_ok=True)

    def _loc(self, p: str) -> str:
        p = str(p)
        if p.startswith("file://"):
            return p[len("file://"):]
        if p.startswith("file:"):
            return p[len("file:"):]
        if p.startswith("dbfs:"):
            p = p[len("dbfs:"):]
        return os.path.join(self.root, p.lstrip("/"))

    def cp(self, src: str, dst: str, recurse: bool = False) -> bool:
        self.calls.append(("cp", str(src), str(dst)))
        (s, d) = (self._loc(src), self._loc(dst))
        if not os.path.exists(s):
            raise Exception("java.io.FileNotFoundException: %s" % src)
        os.makedirs(os.path.dirname(d), exist_ok=True)
        if os.path.isdir(s):
            if os.path.exists(d):
                shutil.rmtree(d)
            shutil.copytree(s, d)
        else:
            shutil.copyfile(s, d)
        return True

    def put(self, path: str, contents: str, overwrite: bool = False) -> bool:
        self.calls.append(("put", str(path)))
        d = self._loc(path)
        if os.path.exists(d) and not overwrite:
            raise Exception("java.io.IOException: file exists: %s" % path)
        os.makedirs(os.path.dirname(d), exist_ok=True)
        with open(d, "w", encoding="utf-8") as f:
            f.write(contents)
        return True

    def head(self, path: str, max_bytes: int = 65536) -> str:
        self.calls.append(("head", str(path)))
        d = self._loc(path)
        if not os.path.isfile(d):
            raise Exception("java.io.FileNotFoundException: %s" % path)
        with open(d, "rb") as f:
            return f.read(max_bytes).decode("utf-8", "replace")

    def rm(self, path: str, recurse: bool = False) -> bool:
        self.calls.append(("rm", str(path)))
        d = self._loc(path)
        if os.path.isdir(d):
            shutil.rmtree(d)
        elif os.path.exists(d):
            os.remove(d)
        return True


class FakeDBUtils(object):
    def __init__(self, root: str):
        self.fs = _FS(root)
