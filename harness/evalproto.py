"""Code -> spec for the evaluation protocol (spec/EvalProto.tla): traces recorded from the
repository's own tests (pytest plugin) and from the replayed histories are judged by TLC."""
import json
import os
import subprocess
from typing import Any, Dict, List, Optional, Tuple

from . import common
from .common import MachineryError


def record_repo_tests(timeout: int = 600) -> Tuple[List[Dict[str, Any]], str]:
    """Runs /repo's test-suite with the recording plugin; returns (traces, pytest summary line)."""
    out = os.path.join(common.scratch(), "repo_test_traces.json")
    env = dict(os.environ)
    env["PYTHONPATH"] = common.REPO + os.pathsep + common.VERIF
    env["VERIF_TRACE_OUT"] = out
    env["TMPDIR"] = common.sub_scratch("pytest_tmp")
    p = subprocess.run([common.PY, "-m", "pytest", "-q", "-p", "no:cacheprovider", "-p", "harness.pytest_dds_plugin",
                        "--timeout=600", "--deselect", "dds_tests/test_sklearn.py", "dds_tests"],
                       cwd=common.REPO, env=env, stdout=subprocess.PIPE, stderr=subprocess.STDOUT, timeout=timeout)
    txt = p.stdout.decode("utf-8", "replace")
    summary = [l for l in txt.split("\n") if " passed" in l or " failed" in l or " error" in l]
    if not os.path.exists(out):
        raise MachineryError("recording the repository's tests produced no trace file:\n" + txt[-1500:])
    with open(out) as f:
        traces = json.load(f)
    return (traces, summary[-1] if summary else txt[-200:])


def traces_from_replay(hist: List[Dict[str, Any]], obs: Dict[int, Dict[str, Any]], noop: bool,
                       volatile: bool = False) -> Optional[Dict[str, Any]]:
    """One trace per history (one store), built from the recording store's operations."""
    events: List[Dict[str, Any]] = []
    pid = None
    for (i, rec) in enumerate(hist):
        if rec["op"] != "eval":
            continue
        o = obs.get(i)
        if not o or o.get("fatal") or "ops" not in o:
            return None
        st = rec.get("stages", 5)
        if volatile and pid is not None and rec.get("pid") != pid:
            events.append({"e": "reset"})      # a memory store dies with its process
        pid = rec.get("pid")
        events.append({"e": "begin", "commit": st >= 5, "run": st >= 3})
        for op in o["ops"]:
            if op[0] == "has":
                events.append({"e": "has", "k": op[1], "ans": bool(op[2])})
            elif op[0] == "fetch":
                events.append({"e": "fetch", "k": op[1]})
            elif op[0] == "store":
                events.append({"e": "store", "k": op[1]})
            elif op[0] == "sync":
                events.append({"e": "sync", "m": op[1]})
            elif op[0] == "fetch_paths":
                ok = isinstance(op[2], list)
                events.append({"e": "fetch_paths", "ps": op[1], "ok": ok, "m": op[2] if ok else []})
        events.append({"e": "end", "ok": o.get("err") is None})
    return {"test": "replay", "noop": noop, "events": events}


def traces_from_spec(hist: List[Dict[str, Any]], noop: bool, volatile: bool) -> Dict[str, Any]:
    """The store operations the SPECIFICATION itself performs (DdsEval with LogOps), as an EvalProto
    trace: checks that the evaluation machine refines the protocol it is projected to."""
    import hashlib
    kid = lambda c: hashlib.sha1(json.dumps(c, sort_keys=True).encode()).hexdigest()
    events: List[Dict[str, Any]] = []
    pid = None
    for rec in hist:
        if rec["op"] != "eval":
            continue
        if rec["err"] not in ("", []) and rec["err"][0] == "reject":
            continue     # rejected by the analysis: no evaluation context is ever entered
        if volatile and pid is not None and rec.get("pid") != pid:
            events.append({"e": "reset"})
        pid = rec.get("pid")
        st = rec.get("stages", 5)
        events.append({"e": "begin", "commit": st >= 5, "run": st >= 3})
        for op in rec.get("ops", []):
            if op[0] == "has":
                events.append({"e": "has", "k": kid(op[1]), "ans": bool(op[2])})
            elif op[0] == "fetch":
                events.append({"e": "fetch", "k": kid(op[1])})
            elif op[0] == "store":
                events.append({"e": "store", "k": kid(op[1])})
            elif op[0] == "sync":
                events.append({"e": "sync", "m": [[p, kid(c)] for (p, c) in op[1]]})
        events.append({"e": "end", "ok": rec["err"] in ("", [])})
    return {"test": "spec", "noop": noop, "events": events}


def validate(traces: List[Dict[str, Any]], name: str = "evalproto") -> Tuple[common.TLCResult, List[Dict[str, Any]]]:
    """Judges the traces; a binding self-test rides along: a copy of a recorded trace in which a store
    event before a path commit was dropped must be rejected (MachineryError otherwise)."""
    import copy
    traces = list(traces)
    n_real = len(traces)
    for t in traces[:n_real]:
        ev = t["events"]
        si = [i for (i, e) in enumerate(ev) if e["e"] == "store"]
        ci = [i for (i, e) in enumerate(ev) if e["e"] == "sync" and e.get("m")]
        if si and ci and si[0] < ci[-1] and not t.get("noop") and any(m_[1] == ev[si[0]].get("k") for e in ev if e["e"] == "sync" for m_ in e.get("m", [])):
            c = copy.deepcopy(t)
            c["events"] = [e for (i, e) in enumerate(ev) if i != si[0]]
            c["test"] = "self-test"
            traces.append(c)
            break
    (r, rejected) = _validate(traces, name)
    r.selftest = len(traces) > n_real
    if len(traces) > n_real:
        if not any(rj["test"] == "self-test" for rj in rejected):
            raise MachineryError("binding self-test: EvalProto accepted a trace with a dropped store event")
        rejected = [rj for rj in rejected if rj["test"] != "self-test"]
    return (r, rejected)


def _validate(traces: List[Dict[str, Any]], name: str = "evalproto") -> Tuple[common.TLCResult, List[Dict[str, Any]]]:
    d = common.stage_spec({}, name)
    tf = os.path.join(d, "traces.json")
    norm = []
    for t in traces:
        evs = []
        for e in t["events"]:
            x = {"e": e["e"], "k": e.get("k", ""), "ans": bool(e.get("ans", False)), "m": e.get("m", []),
                 "ps": e.get("ps", []), "ok": bool(e.get("ok", False)), "commit": bool(e.get("commit", False)),
                 "run": bool(e.get("run", False))}
            evs.append(x)
        norm.append({"noop": bool(t.get("noop")), "events": evs})
    with open(tf, "w") as f:
        json.dump(norm, f)
    r = common.run_tlc(d, "EvalProto.tla", "EvalProto.cfg", workers=1, timeout=1200, env={"TRACE_FILE": tf},
                       java_opts=["-Dtlc2.tool.queue.IStateQueue=StateDeque"])
    common.tlc_must_pass(r, "EvalProto")
    done = {x["tid"]: x for x in r.printed("DONE")}
    if len(done) != len(norm):
        raise MachineryError("EvalProto judged %d of %d traces" % (len(done), len(norm)))
    rejected = []
    for (tid, x) in sorted(done.items()):
        if x["bad"]:
            t = traces[tid - 1]
            rejected.append({"test": t.get("test"), "clauses": x["bad"][:5],
                             "events": t["events"][max(0, x["bad"][0][0] - 12): x["bad"][0][0]]})
    return (r, rejected)
