#!/bin/sh
# Offline setup: syntax-check every TLA+ module, smoke-import the repository.
set -e
cd "$(dirname "$0")"
exec /venv/bin/python -m harness.setup
