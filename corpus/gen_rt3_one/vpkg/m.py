import datetime
from pathlib import PurePosixPath
import dds
import _vlog as L
v1 = 3
v2 = 3


def f1():
    L.hit('f1')
    b = 0  # c0
    rv = []
    sv = []
    sv.append(dds.keep('/r/a', f2))
    sv.append(dds.keep('/r/b', f3,
                       L.rt(
                           0)))
    sv.append(dds.keep('/r/c', f4))
    return ['f1', b, 99, rv, sv]


def f2():
    L.hit('f2')
    b = 0  # c0
    rv = [L.enc('v1', v1)]
    sv = []
    return ['f2', b, 99, rv, sv]


def f3(x):
    L.hit('f3')
    b = 0  # c0
    rv = []
    sv = []
    return ['f3', b, x, rv, sv]


def f4():
    L.hit('f4')
    b = 0  # c0
    rv = [L.enc('v2', v2)]
    sv = []
    return ['f4', b, 99, rv, sv]
