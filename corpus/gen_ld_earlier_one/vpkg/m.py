import datetime
from pathlib import PurePosixPath
import dds
import _vlog as L
v1 = 3
v2 = 3


@dds.data_function('/e/p1')
def f1():
    L.hit('f1')
    b = 0  # c0
    rv = [L.enc('v1', v1)]
    sv = []
    return ['f1', b, 99, rv, sv]


@dds.data_function('/e/p2')
def f2():
    L.hit('f2')
    b = 0  # c0
    rv = [L.enc('v2', v2)]
    sv = []
    sv.append(dds.load('/e/p1'))
    return ['f2', b, 99, rv, sv]
