import datetime
from pathlib import PurePosixPath
import dds
import _vlog as L
v2 = 3


def f5():
    L.hit('f5')
    b = 0  # c0
    rv = [L.enc('v2', v2)]
    sv = []
    return ['f5', b, 99, rv, sv]
