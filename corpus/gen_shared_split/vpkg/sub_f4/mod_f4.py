import datetime
from pathlib import PurePosixPath
import dds
import _vlog as L
v1 = 3


@dds.data_function('/s/p4')
def f4():
    L.hit('f4')
    b = 0  # c0
    rv = [L.enc('v1', v1)]
    sv = []
    return ['f4', b, 99, rv, sv]
