import datetime
from pathlib import PurePosixPath
import dds
import _vlog as L
from vpkg.sub_f4.mod_f4 import f4


def f2():
    L.hit('f2')
    b = 0  # c0
    rv = []
    sv = []
    sv.append(f4())
    return ['f2', b, 99, rv, sv]
