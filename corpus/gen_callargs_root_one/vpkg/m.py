import dataclasses
import datetime
import pathlib
from pathlib import PurePosixPath
import dds
import _vlog as L
v1 = 3
v2 = 3


def f1(x):
    L.hit('f1')
    b = 0  # c0
    rv = []
    sv = []
    sv.append(dds.keep('/cr/a', f2, x))
    sv.append(f3(x))
    sv.append(f5(x=0))
    return ['f1', b, L.encx(x), rv, sv]


def f2(x):
    L.hit('f2')
    b = 0  # c0
    rv = [L.enc('v1', v1)]
    sv = []
    return ['f2', b, L.encx(x), rv, sv]


def f3(x):
    L.hit('f3')
    b = 0  # c0
    rv = []
    sv = []
    sv.append(dds.keep('/cr/b', f4, x))
    return ['f3', b, L.encx(x), rv, sv]


def f4(x):
    L.hit('f4')
    b = 0  # c0
    rv = [L.enc('v2', v2)]
    sv = []
    return ['f4', b, L.encx(x), rv, sv]


def f5(x):
    L.hit('f5')
    b = 0  # c0
    rv = []
    sv = []
    sv.append(dds.keep('/cr/c', f6, x))
    return ['f5', b, L.encx(x), rv, sv]


def f6(x):
    L.hit('f6')
    b = 0  # c0
    rv = []
    sv = []
    return ['f6', b, L.encx(x), rv, sv]
