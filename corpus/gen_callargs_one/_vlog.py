"""Non-accepted helper module of the generated programs: execution log, failure switch,
encoders.  dds sees it by name only."""
import collections
import dataclasses
import datetime
import pathlib
from pathlib import PurePosixPath

EXT_VER = 0

NT = collections.namedtuple("NT", ["a", "b"])


@dataclasses.dataclass(frozen=True)
class DC:
    a: int
    b: int


LOG = []
FAIL = {}
VALS = {}


def hit(name):
    LOG.append(name)
    exc = FAIL.get(name)
    if exc is not None:
        raise exc


def enc(name, value):
    """Version index of the value of variable `name` (-1 when it is none of its versions)."""
    vs = VALS.get(name, [])
    if dataclasses.is_dataclass(value) and type(value).__name__ == "DCm":
        value = ("DCm",) + dataclasses.astuple(value)      # the class lives in the generated module
    for (i, v) in enumerate(vs):
        if type(v) is type(value) and v == value:
            return i
    return -1


ARG_VALS = [0, None, "", 1]


def push(sofar, v):
    """`h()` written inside an argument expression: its value still is the value of a statement"""
    sofar.append(v)
    return sofar


def rt(x, sofar):
    """A run-time (non literal) argument: computed from a literal and from what the caller has
    obtained so far (the values of its earlier statements)."""
    return [encx(x), list(sofar)]


def encx(x):
    """Version index of an argument value (several falsy values on purpose); other values as is."""
    if isinstance(x, list):
        return x
    for (i, v) in enumerate(ARG_VALS):
        if type(v) is type(x) and v == x:
            return i
    return x


def apply(f):
    return f()

VALS['v1'] = [3, 4, 5]
VALS['v2'] = [3, 4, 5]
