import dataclasses
import datetime
import pathlib
from pathlib import PurePosixPath
import dds
import _vlog as L
v1 = 3
v2 = 3


def f1():
    L.hit('f1')
    b = 0  # c0
    rv = []
    sv = []
    sv.append(f2(0))
    sv.append(f3(L.rt(0, sv)))
    sv.append(f8(0))
    sv.append(dds.keep('/ca/k', f6))
    return ['f1', b, 99, rv, sv]


def f2(x):
    L.hit('f2')
    b = 0  # c0
    rv = []
    sv = []
    sv.append(dds.keep('/ca/a', f4, x))
    sv.append(f5(x))
    return ['f2', b, L.encx(x), rv, sv]


def f3(x):
    L.hit('f3')
    b = 0  # c0
    rv = []
    sv = []
    sv.append(dds.keep('/ca/b', f4, x))
    return ['f3', b, L.encx(x), rv, sv]


def f4(x):
    L.hit('f4')
    b = 0  # c0
    rv = [L.enc('v1', v1)]
    sv = []
    return ['f4', b, L.encx(x), rv, sv]


def f5(x):
    L.hit('f5')
    b = 0  # c0
    rv = []
    sv = []
    sv.append(dds.keep('/ca/c', f7, x))
    return ['f5', b, L.encx(x), rv, sv]


def f6():
    L.hit('f6')
    b = 0  # c0
    rv = [L.enc('v2', v2)]
    sv = []
    return ['f6', b, 99, rv, sv]


def f7(x):
    L.hit('f7')
    b = 0  # c0
    rv = []
    sv = []
    return ['f7', b, L.encx(x), rv, sv]


def f8(x=7):
    L.hit('f8')
    b = 0  # c0
    rv = []
    sv = []
    sv.append(dds.keep('/ca/d', f9, x))
    return ['f8', b, L.encx(x), rv, sv]


def f9(x):
    L.hit('f9')
    b = 0  # c0
    rv = []
    sv = []
    return ['f9', b, L.encx(x), rv, sv]
