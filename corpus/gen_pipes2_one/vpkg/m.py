import dataclasses
import datetime
import pathlib
from pathlib import PurePosixPath
import dds
import _vlog as L
v1 = 3
v2 = 3
v3 = 3


def f1():
    L.hit('f1')
    b = 0  # c0
    rv = []
    sv = []
    sv.append(dds.keep('/pa/sub', f2))
    sv.append(f3())
    return ['f1', b, 99, rv, sv]


def f2():
    L.hit('f2')
    b = 0  # c0
    rv = [L.enc('v1', v1)]
    sv = []
    return ['f2', b, 99, rv, sv]


def f3():
    L.hit('f3')
    b = 0  # c0
    rv = [L.enc('v2', v2)]
    sv = []
    return ['f3', b, 99, rv, sv]


def g1():
    L.hit('g1')
    b = 0  # c0
    rv = []
    sv = []
    sv.append(dds.keep('/pb/sub', g2))
    sv.append(g3())
    return ['g1', b, 99, rv, sv]


def g2():
    L.hit('g2')
    b = 0  # c0
    rv = [L.enc('v3', v3)]
    sv = []
    return ['g2', b, 99, rv, sv]


@dds.data_function('/pb/g3')
def g3():
    L.hit('g3')
    b = 0  # c0
    rv = []
    sv = []
    return ['g3', b, 99, rv, sv]
