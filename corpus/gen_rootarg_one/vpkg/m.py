import dataclasses
import datetime
import pathlib
from pathlib import PurePosixPath
import dds
import _vlog as L
v1 = 3
v2 = 3


def f1(x):
    L.hit('f1')
    b = 0  # c0
    rv = [L.enc('v1', v1)]
    sv = []
    sv.append(dds.keep('/ra/c', f2, 0))
    sv.append(dds.keep('/ra/r', f3, L.rt(0, sv)))
    sv.append(f4())
    sv.append(dds.keep('/ra/d', f5))
    return ['f1', b, L.encx(x), rv, sv]


def f2(x):
    L.hit('f2')
    b = 0  # c0
    rv = []
    sv = []
    return ['f2', b, L.encx(x), rv, sv]


def f3(x):
    L.hit('f3')
    b = 0  # c0
    rv = []
    sv = []
    return ['f3', b, L.encx(x), rv, sv]


@dds.data_function('/ra/f4')
def f4():
    L.hit('f4')
    b = 0  # c0
    rv = [L.enc('v2', v2)]
    sv = []
    return ['f4', b, 99, rv, sv]


def f5(x=7):
    L.hit('f5')
    b = 0  # c0
    rv = []
    sv = []
    return ['f5', b, L.encx(x), rv, sv]
