import dataclasses
import datetime
import pathlib
from pathlib import PurePosixPath
import dds
import _vlog as L
v1 = 3
v2 = 3


def f1():
    L.hit('f1')
    b = 0  # c0
    rv = []
    sv = []
    sv.append(f2())
    sv.append(f3())
    return ['f1', b, 99, rv, sv]


@dds.data_function('/t/p2')
def f2():
    L.hit('f2')
    b = 0  # c0
    rv = [L.enc('v1', v1)]
    sv = []
    return ['f2', b, 99, rv, sv]


@dds.data_function('/t/p3')
def f3():
    L.hit('f3')
    b = 0  # c0
    rv = [L.enc('v2', v2)]
    sv = []
    sv.append(dds.load('/t/p2'))
    sv.append(dds.load('/t/p2'))
    return ['f3', b, 99, rv, sv]
