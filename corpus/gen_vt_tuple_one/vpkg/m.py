import datetime
from pathlib import PurePosixPath
import dds
import _vlog as L
v1 = (1, 2)
v2 = (1, 2)


@dds.data_function('/v/p1')
def f1():
    L.hit('f1')
    b = 0  # c0
    rv = [L.enc('v1', v1)]
    sv = []
    sv.append(f2())
    return ['f1', b, 99, rv, sv]


def f2():
    L.hit('f2')
    b = 0  # c0
    rv = []
    sv = []
    sv.append(dds.keep('/v/p3', f3))
    return ['f2', b, 99, rv, sv]


def f3():
    L.hit('f3')
    b = 0  # c0
    rv = [L.enc('v2', v2)]
    sv = []
    return ['f3', b, 99, rv, sv]
