import dataclasses
import datetime
import pathlib
from pathlib import PurePosixPath
import dds
import _vlog as L
v1 = 3
v2 = 3


def f1():
    L.hit('f1')
    b = 0  # c0
    rv = []
    sv = []
    sv.append(f2())
    sv.append(dds.keep('/y/b', f4, L.rt(0, sv)))
    sv.append(dds.keep('/y/c', f3))
    return ['f1', b, 99, rv, sv]


@dds.data_function('/y/a')
def f2():
    L.hit('f2')
    b = 0  # c0
    rv = [L.enc('v1', v1)]
    sv = []
    return ['f2', b, 99, rv, sv]


def f3():
    L.hit('f3')
    b = 0  # c0
    rv = [L.enc('v2', v2)]
    sv = []
    return ['f3', b, 99, rv, sv]


def f4(x):
    L.hit('f4')
    b = 0  # c0
    rv = []
    sv = []
    sv.append(f5())
    return ['f4', b, L.encx(x), rv, sv]


def f5():
    L.hit('f5')
    b = 0  # c0
    rv = []
    sv = []
    sv.append(dds.load('/y/a'))
    return ['f5', b, 99, rv, sv]
