"""Non-accepted helper module of the generated programs: execution log, failure switch,
encoders.  dds sees it by name only."""
import collections
import dataclasses
import datetime
from pathlib import PurePosixPath

EXT_VER = 0

NT = collections.namedtuple("NT", ["a", "b"])


@dataclasses.dataclass(frozen=True)
class DC:
    a: int
    b: int


LOG = []
FAIL = {}
VALS = {}


def hit(name):
    LOG.append(name)
    exc = FAIL.get(name)
    if exc is not None:
        raise exc


def enc(name, value):
    """Version index of the value of variable `name` (-1 when it is none of its versions)."""
    vs = VALS.get(name, [])
    for (i, v) in enumerate(vs):
        if type(v) is type(value) and v == value:
            return i
    return -1


def rt(x):
    """A run-time (non literal) argument expression."""
    return x


def apply(f):
    return f()

VALS['v1'] = [3, 4, 5]
VALS['v2'] = ["a", "b", "c"]
VALS['v3'] = [3, 4, 5]
