"""Hand-written corpus programs in the style of the user guide and of the repository's tests."""
import dds
from collections import OrderedDict
from pathlib import Path
from typing import NewType

GREETING = "hello"
FACTOR = 3
SWITCH = True
WEIGHTS = [0.5, 1.5, 2.0]
CONFIG = {"alpha": 1, "beta": [1, 2], "gamma": {"x": None}}
ORDERED = OrderedDict([("b", 1), ("a", 2)])
PAIR = (1, "two")
OUT_PATH = "/corpus/by_variable"
P_PATH = Path("/corpus/by_pathlib")
UserId = NewType("UserId", int)


@dds.data_function("/corpus/hello")
def hello():
    return GREETING + " world"


def scale(x, factor=FACTOR):
    return [w * x * factor for w in WEIGHTS]


def pipeline_args():
    a = dds.keep("/corpus/scale_const", scale, 2)
    b = dds.keep("/corpus/scale_kw", scale, 2, factor=5)
    c = dds.keep("/corpus/scale_runtime", scale, len(a))
    return (a, b, c)


@dds.data_function("/corpus/config")
def use_config():
    return sorted(CONFIG.keys()) + list(ORDERED.keys()) + list(PAIR) + [SWITCH]


def by_variable_inner():
    return "x"


def by_variable():
    return dds.keep(OUT_PATH, by_variable_inner)


def by_pathlib():
    return dds.keep(P_PATH, by_variable_inner)


class Model(object):
    def __init__(self, n):
        self.n = n

    def fit(self):
        return [self.n * FACTOR]


@dds.data_function("/corpus/model")
def train():
    return Model(2).fit()


def mapped(i):
    return i + FACTOR


@dds.data_function("/corpus/higher_order")
def higher_order():
    return list(map(mapped, range(3)))


@dds.data_function("/corpus/lambda")
def with_lambda():
    f = lambda z: z * FACTOR  # noqa
    return f(2)


def outer():
    def inner(y):
        return y + 1
    return inner(FACTOR)


@dds.data_function("/corpus/nested_def")
def nested_def():
    return outer()


@dds.data_function("/corpus/typed")
def typed() -> UserId:
    return UserId(FACTOR)


@dds.data_function("/corpus/reader")
def reader():
    return dds.load("/corpus/hello") + "!"


def producer_then_reader():
    hello()
    return reader()


def all_together():
    hello()
    use_config()
    train()
    higher_order()
    with_lambda()
    nested_def()
    typed()
    pipeline_args()
    return reader()
