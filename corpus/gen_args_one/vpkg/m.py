import datetime
from pathlib import PurePosixPath
import dds
import _vlog as L
v1 = 3
v2 = 3


def f1():
    L.hit('f1')
    b = 0  # c0
    rv = [L.enc('v1', v1)]
    sv = []
    sv.append(dds.keep('/a/c', f2, 0))
    sv.append(dds.keep('/a/k', f3, x=0))
    sv.append(dds.keep('/a/d', f4))
    sv.append(dds.keep('/a/r', f5, L.rt(0)))
    return ['f1', b, 99, rv, sv]


def f2(x):
    L.hit('f2')
    b = 0  # c0
    rv = []
    sv = []
    return ['f2', b, x, rv, sv]


def f3(x):
    L.hit('f3')
    b = 0  # c0
    rv = []
    sv = []
    return ['f3', b, x, rv, sv]


def f4(x=7):
    L.hit('f4')
    b = 0  # c0
    rv = []
    sv = []
    return ['f4', b, x, rv, sv]


def f5(x):
    L.hit('f5')
    b = 0  # c0
    rv = [L.enc('v2', v2)]
    sv = []
    return ['f5', b, x, rv, sv]
