import datetime
from pathlib import PurePosixPath
import dds
import _vlog as L
v1 = 3
v2 = 3
v3 = 3


def f1():
    L.hit('f1')
    b = 0  # c0
    rv = []
    sv = []
    sv.append(dds.keep('/n/p2', f2))
    return ['f1', b, 99, rv, sv]


def f2():
    L.hit('f2')
    b = 0  # c0
    rv = [L.enc('v1', v1)]
    sv = []
    sv.append(f3())
    sv.append(dds.keep('/n/p4', f4))
    return ['f2', b, 99, rv, sv]


def f3():
    L.hit('f3')
    b = 0  # c0
    rv = [L.enc('v2', v2)]
    sv = []
    return ['f3', b, 99, rv, sv]


def f4():
    L.hit('f4')
    b = 0  # c0
    rv = [L.enc('v3', v3)]
    sv = []
    return ['f4', b, 99, rv, sv]
