import datetime
from pathlib import PurePosixPath
import dds
import _vlog as L
from vpkg.sub_f3.mod_f3 import f3
v2 = "a"


def f2():
    L.hit('f2')
    b = 0  # c0
    rv = [L.enc('v2', v2)]
    sv = []
    sv.append(dds.keep('/d/p3', f3))
    return ['f2', b, 99, rv, sv]
