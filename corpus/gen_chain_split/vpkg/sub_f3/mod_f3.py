import datetime
from pathlib import PurePosixPath
import dds
import _vlog as L
v3 = 3


def f3():
    L.hit('f3')
    b = 0  # c0
    rv = [L.enc('v3', v3)]
    sv = []
    return ['f3', b, 99, rv, sv]
