import datetime
from pathlib import PurePosixPath
import dds
import _vlog as L
from vpkg.sub_f2.mod_f2 import f2
v1 = 3


@dds.data_function('/p1')
def f1():
    L.hit('f1')
    b = 0  # c0
    rv = [L.enc('v1', v1)]
    sv = []
    sv.append(f2())
    return ['f1', b, 99, rv, sv]
