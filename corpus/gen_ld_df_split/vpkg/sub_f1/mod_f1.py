import datetime
from pathlib import PurePosixPath
import dds
import _vlog as L
from vpkg.sub_f2.mod_f2 import f2
from vpkg.sub_f3.mod_f3 import f3


def f1():
    L.hit('f1')
    b = 0  # c0
    rv = []
    sv = []
    sv.append(f2())
    sv.append(f3())
    sv.append(dds.load('/l/p3'))
    return ['f1', b, 99, rv, sv]
