import datetime
from pathlib import PurePosixPath
import dds
import _vlog as L
v1 = 3


@dds.data_function('/l/p2')
def f2():
    L.hit('f2')
    b = 0  # c0
    rv = [L.enc('v1', v1)]
    sv = []
    return ['f2', b, 99, rv, sv]
