import datetime
from pathlib import PurePosixPath
import dds
import _vlog as L
v2 = 3


@dds.data_function('/l/p3')
def f3():
    L.hit('f3')
    b = 0  # c0
    rv = [L.enc('v2', v2)]
    sv = []
    sv.append(dds.load('/l/p2'))
    return ['f3', b, 99, rv, sv]
