import datetime
from pathlib import PurePosixPath
import dds
import _vlog as L
v1 = 3
v2 = 3


@dds.data_function('/g/p1')
def f1():
    L.hit('f1')
    b = 0  # c0
    rv = [L.enc('v1', v1)]
    sv = []
    return ['f1', b, 99, rv, sv]


def f3():
    L.hit('f3')
    b = 0  # c0
    rv = []
    sv = []
    sv.append(dds.keep('/g/p5', f5))
    return ['f3', b, 99, rv, sv]


def f5():
    L.hit('f5')
    b = 0  # c0
    rv = []
    sv = []
    sv.append(f4())
    return ['f5', b, 99, rv, sv]


def f4():
    L.hit('f4')
    b = 0  # c0
    rv = [L.enc('v2', v2)]
    sv = []
    sv.append(dds.load('/g/p1'))
    return ['f4', b, 99, rv, sv]
