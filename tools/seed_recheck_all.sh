#!/bin/bash
# Re-applies every stored seeded change to /repo (one at a time, undone afterwards) and runs the quick
# tier of the check that is expected to catch it.  Prints one line per seed: CAUGHT / MISSED.
# /repo must be clean and no `vp run` without --with-repo may be in flight.
cd "$(dirname "$0")/.."
declare -A OVERRIDE=( [R2-C04-lru-caches-paths]=C12 [R4-C02]=C06 [R4-C03]=C12 [R4-C04]=C06 [R4-C08]=C17 [C01-falsy-args]=C01 [R6-C03]=C01 [R6-C04]=C15 [R6-C16]=C12 )
for d in seeded/*/; do
  n=$(basename $d)
  [ -f $d/patch.diff ] || continue
  prop=$(python3 -c "import json;print(json.load(open('$d/meta.json'))['property'])" 2>/dev/null)
  c=${OVERRIDE[$n]:-$prop}
  test -z "$(git -C /repo status --porcelain)" || { echo "repo not clean"; exit 2; }
  git -C /repo apply $PWD/$d/patch.diff || { echo "$n: PATCH DOES NOT APPLY"; continue; }
  out=$(./check $c --tier quick 2>&1); rc=$?
  git -C /repo checkout -- .
  if [ $rc -eq 1 ] && echo "$out" | grep -q "^VIOLATION"; then
    echo "$n: CAUGHT by $c ($(echo "$out" | grep '^  cause' | head -1 | cut -c1-100))"
  else
    echo "$n: MISSED by $c (exit $rc)"
  fi
done
