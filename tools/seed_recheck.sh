#!/bin/sh
# usage: seed_recheck.sh <seed-name> <check> [<check>...] : apply the stored patch to /repo, run the checks, undo.
name=$1; shift
test -z "$(git -C /repo status --porcelain)" || { echo "repo not clean"; exit 2; }
git -C /repo apply /verif/seeded/$name/patch.diff || exit 2
for c in "$@"; do
  ( cd /verif && ./check $c --tier quick 2>&1 | grep -E "^VIOLATION|^  cause|^MACHINERY|quick:" | head -8 )
done
git -C /repo checkout -- .
