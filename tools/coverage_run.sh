#!/bin/bash
# development aid: line coverage of dds/ under the quick tier of the given checks (default: all)
# usage: tools/coverage_run.sh [Cxx ...]   (writes /tmp/verif_cov/report.txt)
cd "$(dirname "$0")/.."
rm -rf /tmp/verif_cov; mkdir -p /tmp/verif_cov
export COVERAGE_PROCESS_START=$PWD/tools/cov/covrc
export PYTHONPATH=$PWD/tools/cov:$PYTHONPATH
checks=${@:-C01 C02 C03 C04 C05 C06 C07 C08 C09 C10 C11 C12 C13 C14 C15 C16 C17 C18 C19}
for c in $checks; do ./check $c --tier quick 2>&1 | tail -1 | cut -c1-120; done
unset COVERAGE_PROCESS_START
cd /tmp/verif_cov && /venv/bin/python -m coverage combine --rcfile=/verif/tools/cov/covrc -q 2>/dev/null
/venv/bin/python -m coverage report --rcfile=/verif/tools/cov/covrc -m --include='*/dds/*' > /tmp/verif_cov/report.txt 2>&1
tail -25 /tmp/verif_cov/report.txt
