#!/bin/bash
export VERIF_REPO=$VP_RUN_REPO
echo "repo snapshot: $VERIF_REPO $(git -C $VERIF_REPO log --oneline -1)"
./setup.sh >/dev/null 2>&1
for c in C18 C19 C17 C05 C13 C11 C09 C10 C14 C15 C12 C03 C16 C08 C04 C01 C02; do
  echo "=== $c"
  /usr/bin/time -f "%es" ./check $c --tier thorough 2>&1 | grep -v "^KNOWN-FINDING" | tail -12
done
