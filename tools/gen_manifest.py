#!/venv/bin/python
"""Regenerates /verif/MANIFEST.json from the table below (the single place where the claimed
checks are described) and validates it against the schema."""
import json
import os
import subprocess

VERIF = os.path.dirname(os.path.dirname(os.path.abspath(__file__)))

EVAL_NOTE = ("Trusted: TLC; the materialiser (cross-checked on every run by the dds-free reference run of the same "
             "generated sources, which must reproduce the specification's Val term); CPython inspect/ast; sha256 "
             "injective. The verdict about the code rests on the finite set of replayed histories "
             "(bounded shapes / plans / MaxVer stated in evidence).")

CHECKS = {
    "C01": dict(
        engine="tlc-design+tlc-generate",
        technique="TLA+ spec DdsEval (cone-keyed memoisation machine) model-checked by TLC; TLC-generated edit/evaluation "
                  "histories replayed on the real library, returned values compared with the spec's reference value",
        text="TLC checks on DdsEval that an evaluation machine whose store is keyed by the dependency cone always returns "
             "the dds-free reference value (RetCorrect, Sound) over all bounded edit/revert/restart histories of the shape "
             "family; every complete history TLC enumerates is then replayed against /repo (real packages on disk, fresh "
             "processes, store kinds local / local+LRU / memory / noop, import forms incl. function-local imports, layouts, "
             "helpers as one- and two-method classes, notebook cells, a __main__ script, plain calls with arguments and handed-on "
             "parameters, helper calls inside argument expressions, builtin-named variables, paths given by variables) and each "
             "returned value must equal the spec's Val term, which a dds-free stub run of the same sources must also produce.",
        design_ref="DESIGN.md 5 C01, 2.2, 3.1-3.3"),
    "C02": dict(
        engine="tlc-design+tlc-generate",
        technique="TLA+ spec DdsEval: action property NoRecompute + IdempotentEval + EnvIndependent checked by TLC; replay of "
                  "TLC-generated histories comparing the real execution log and sync_paths signatures with the spec's",
        text="The spec executes a kept body only if no blob with an equal dependency cone (DESIGN 4.1) exists; TLC checks "
             "NoRecompute/IdempotentEval on the machine and that cones ignore process, layout, unrelated definitions and "
             "non-accepted code. Every generated history is replayed: a function body that runs in the real code more often "
             "than in the spec, or a path whose real signature differs between two evaluations with equal cones, is a violation.",
        design_ref="DESIGN.md 5 C02, 4.1"),
    "C03": dict(
        engine="tlc-design+tlc-generate+tlc-trace",
        technique="TLA+ spec DdsEval (cones never read process / environment state: action property EnvIndependent, TLC) + TLA+ "
                  "trace spec SigTrace (signature is a function of content, pinned table as initial state) judging observations "
                  "recorded from TLC-generated histories replayed in a matrix of environments and from the pinned corpus",
        text="TLC-generated histories (incl. variable edit + revert in one process, entry-style switches, second pipelines first) are "
             "replayed in fresh interpreters with PYTHONHASHSEED 0 / 1 / 4242 / random, two working directories, the package at "
             "three on-disk locations, memory / local / local+LRU / noop stores, extra_debug on/off, graph export on/off, in a "
             "warm forked process, and as IPython notebook cells with redefinition in later cells; each signature handed to "
             "Store.sync_paths is recorded with the dependency cone DdsEval computes for that node. 52 evaluations of a pinned "
             "corpus (18 generated + 1 hand-written program file, signatures in corpus/pinned.json) are re-run in two more "
             "environments. TLC (SigTrace) checks that equal content never shows two signatures, the pinned table included.",
        design_ref="DESIGN.md 5 C03", category="model_checking",
        note="Finite sample of seeds and environments; the corpus is re-pinned only explicitly (tools/repin.py) after fix commits "
             "that change signatures on purpose. Trusted: TLC, sha256, CPython ast/inspect determinism."),
    "C04": dict(
        engine="tlc-design+tlc-generate",
        technique="TLA+ spec DdsEval (Commit action, PathsServed invariant) checked by TLC; replay of generated histories with "
                  "a second process loading every committed path after every evaluation",
        text="The spec commits the requested path->cone map once at the end of a successful evaluation; TLC checks PathsServed. "
             "In the replay every evaluation runs in its own process and a different process then calls dds.load for every "
             "path the spec says is committed (kept now or earlier); the loaded value must equal the spec's served value, and so must "
             "the content of the file found under the data directory (local store, local store with object cache, and the "
             "Databricks store over the in-process fake of dbutils.fs). The recorded store operations of every replay, of the "
             "repository's own tests and of the specification itself are judged against the store protocol EvalProto by TLC.",
        design_ref="DESIGN.md 5 C04"),
    "C09": dict(
        engine="tlc-design+tlc-generate",
        technique="TLA+ spec DdsEval: loads resolved against the evaluation's own producers then the committed paths, cone rule 6, "
                  "static program-order well-formedness (READ_BEFORE_PRODUCE, MISSING_PATH); TLC-checked, generated histories "
                  "(two roots: producer and reader pipelines) replayed on the real library",
        text="TLC checks RetCorrect/Sound/NoRecompute/RejectClean on shapes that place a dds.load at the root's top level, in a "
             "nested helper and inside a kept function, with data-function and keep-call producers that ran earlier in the same "
             "evaluation, later in it (must be rejected), in an earlier evaluation or never (must be rejected). Every generated "
             "history (edits of the producer's variables, reverts, restarts, producer and reader evaluated separately) is "
             "replayed: loaded and reader values vs the reference, reader execution log, DDSException class for rejections with "
             "nothing executed and nothing written.",
        design_ref="DESIGN.md 5 C09, 4.1 rule 6"),
    "C10": dict(
        engine="tlc-design+tlc-generate",
        technique="TLA+ spec DdsEval: SetFail/ClearFail actions, Enter raises and unwinds; action property FailClean checked by "
                  "TLC; generated histories (every function as the failing one x exception class) replayed with exception "
                  "identity, store operations and the following evaluations compared",
        text="In the spec a failing body unwinds the whole evaluation: no path is committed and only nodes that had returned are "
             "stored (FailClean, checked by TLC over every function of every shape as the failing one). Replays check that the "
             "exception caught at the call site is the very object raised, that store_blob was called exactly for the spec's "
             "completed nodes (blobs are self-describing terms) and sync_paths never, that dds' evaluation context is cleared, "
             "and that the following evaluations return the reference value and execute exactly what the spec predicts.",
        design_ref="DESIGN.md 5 C10"),
    "C11": dict(
        engine="tlc-design+tlc-generate",
        technique="TLA+ spec DdsEval: order-free well-formedness predicates (Overlap on segment sequences, Cyclic on the call "
                  "relation, NestedEval) and action property RejectClean checked by TLC; every generated ill-formed shape "
                  "(all orders / placements / cycle lengths / edge kinds) replayed, error code, execution log and store "
                  "operations compared",
        text="The spec's Analyse step rejects an evaluation iff its set of kept paths contains a strict segment-wise prefix pair, "
             "its call relation has a cycle, or it reaches a nested dds.eval, and a rejection changes nothing (RejectClean, TLC). "
             "A generator enumerates path sets (with and without prefix pairs) in every call order x 3 placements, cycles of "
             "length 1..4 through calls / keeps / references / methods entered on the cycle or from above, dds.eval nested at "
             "depth 1..3; each is evaluated on a fresh and on a populated store: the DDSException's error_code must be the "
             "spec's, no user function may run, no blob or path may be written; well-formed neighbours must evaluate.",
        design_ref="DESIGN.md 5 C11"),
    "C14": dict(
        engine="tlc-design+tlc-generate",
        technique="TLA+ spec DdsEval: functions of non-accepted modules enter cones by name only (IsExtCall), data functions there "
                  "are refused (NotAccepted); TLC-checked; generated edit histories on both sides of the boundary replayed "
                  "under package depth x accepted-prefix depth x number of accepted packages x import form",
        text="In the spec an edit of non-accepted code changes no cone and an edit of any reachable accepted function or tracked "
             "variable changes the cones above it (TLC: Sound/RetCorrect/NoRecompute/EnvIndependent with S.untracked). The "
             "generated histories are replayed with the package nested 1..7 levels deep, the accepted prefix at depth 1..6, "
             "1..40 accepted packages and four import forms: values, execution log and signatures must follow the spec, and a "
             "data function of a non-accepted module (as root or called from accepted code) must be refused with a "
             "DDSException naming the module.",
        design_ref="DESIGN.md 5 C14"),
    "C15": dict(
        engine="tlc-design+tlc-generate",
        technique="TLA+ spec DdsEval: EvalBegin takes a stage prefix; action properties DryRun/DryRunPure checked by TLC; generated "
                  "histories mixing restricted and full evaluations replayed; stage-list spellings and invalid lists probed",
        text="TLC checks that an evaluation restricted to the first k stages never changes the path table (k<5) nor the store at "
             "all (k<3) and that later full evaluations return the reference value. Replays compare execution log, store_blob / "
             "sync_paths calls, returned value (None for dry runs) and the signatures of later full evaluations; every prefix "
             "of the stage order is used, in lower/upper/mixed case and as enum members, and non-prefix lists must raise a DDS "
             "error without running anything.",
        design_ref="DESIGN.md 5 C15"),
    "C18": dict(
        engine="tlc-design+tlc-generate",
        technique="TLA+ spec DdsEval: GraphOf (nodes, solid / dashed edges, allowed dotted edges) and invariant GraphAcyclic checked "
                  "by TLC; generated histories replayed with and without dds_export_graph, the exported dot file parsed back "
                  "and compared with GraphOf",
        text="The spec defines the graph of an evaluation from the call tree (kept heads reached without crossing a kept function; "
             "loads of the kept function and of the plain helpers below it; dotted only from earlier siblings to run-time-"
             "argument keeps) and TLC checks it is acyclic for every shape. Each generated history is replayed twice, with and "
             "without graph export: results and sync_paths signatures must be equal, the export must succeed, and the parsed "
             "dot file must have the spec's nodes, exactly its solid and dashed edges (also both between one pair), any other edge "
             "being an allowed dotted one; shapes include one function kept under two paths, run-time keeps loading a sibling, "
             "kept - plain - kept - load chains.",
        design_ref="DESIGN.md 5 C18"),
    "C05": dict(
        engine="tlc-generate+tlc-trace",
        technique="TLA+ spec DdsValues: value universe as terms, canonical identity Canon (documented identifications only) and "
                  "Supported, enumerated by TLC; every value built and hashed by the real dds_hash (and dds.keep), partition by "
                  "signature compared with the partition by Canon; recorded observations on random deep values judged by TLC "
                  "(ValuesTrace recomputes Canon and keeps the table signature -> class)",
        text="TLC enumerates the universe (60 named atoms incl. boundary ints, an int beyond the decimal digit limit, signed zeros, "
             "nan/inf, separator-like and sentinel strings, a lone surrogate, dates, paths, unsupported values; all containers of "
             "length <= 2 over the core atoms incl. named tuples, dicts with string and non-string keys, two dataclasses, a "
             "dataclass inside a dataclass / list; depth 2 in thorough) with each value's Canon class. The harness hashes every value: any exception other than a "
             "coded DDS error on an unsupported value, any two values of different classes with one signature, or a different "
             "signature in a second process (other hash seeds, and one process hashing the sample in the opposite order) is a "
             "violation; random deeper values are recorded and TLC "
             "checks the same partition property on the trace.",
        design_ref="DESIGN.md 5 C05, 4.4", category="model_checking",
        note="This is the function-shaped corner of the technique: TLC defines and enumerates the universe and the expected "
             "partition and judges recorded observations; there is no interleaving to explore. sha256 collision resistance assumed."),
    "C13": dict(
        engine="tlc-generate",
        technique="TLA+ spec DdsValues: ParamLists, Spellings, Bind enumerated by TLC; every spelling executed directly and as "
                  "literals inside an evaluated function, signatures captured via Store.sync_paths and compared with the "
                  "partition by binding",
        text="TLC enumerates every parameter list with up to 2 (thorough: 3) parameters and defaults from {None,0,False,'',1,'a'}, "
             "every spelling (positional prefix, keywords, defaults omitted or explicit) over {None,0,1,True,'','a'} and its "
             "binding. Each is run as dds.keep(path,g,...) directly and as a literal call inside dds.eval(h), keywords in both "
             "orders, on a fresh recording store and after redefinition of the function in the same process: one binding with two "
             "signatures, or two bindings with one, is a violation (thorough adds the 4-parameter lists over two values).",
        design_ref="DESIGN.md 5 C13", category="model_checking",
        note="Function-shaped: TLC supplies the universe and the expected partition. bool = int is a documented identification."),
    "C06": dict(
        engine="tlc-design+explorer+tlc-trace",
        technique="PlusCal/TLA+ spec LocalStoreFS (one label per file-system call, torn writes as states, kill -9 as a Crash "
                  "action) model-checked by TLC per scenario and write protocol; exhaustive crash-point enumeration of the "
                  "real LocalFileStore under a file-system shim with recovery processes; recorded call traces validated by "
                  "TLC against the POSIX model FsTrace",
        text="TLC checks ReturnedComplete / NoFailure / CommittedLoadable on LocalStoreFSMC with a crash at every label for the "
             "'atomic' protocol (temp file + rename, metadata last, link replaced by rename) and must reject the 'inplace' one; "
             "which protocol the working tree follows is measured from its recorded calls. On the real code, for every scenario "
             "(TLC-generated DdsEval histories: first keep, re-keep after a value-changing edit, nested keeps, constant/run-time "
             "arguments) the victim evaluation is killed with SIGKILL before each of its mutating file-system calls (each "
             "write is two calls); a recovery process then loads every previously committed path, re-evaluates, loads and "
             "re-evaluates again: any None / wrong / partial value or exception is a violation. The call traces (complete and "
             "killed) are replayed by TLC in FsTrace, which must predict every outcome and reproduce the directory tree.",
        design_ref="DESIGN.md 5 C06, 2.4, 4.5", category="model_checking",
        note="kill -9 semantics only (no power loss, no fsync modelling); crash points are Python-level calls plus the two "
             "halves of each write; str and pickle codecs (pyarrow writes below Python are not interposed). Trusted: TLC, the "
             "shim (cross-validated with FsTrace on every run)."),
    "C07": dict(
        engine="tlc-design+explorer+tlc-trace",
        technique="PlusCal/TLA+ spec LocalStoreFS model-checked by TLC over all interleavings of 2-3 client processes per race "
                  "scenario; systematic schedule enumeration (preemption-bounded DFS at file-system-call granularity) of real "
                  "processes under the shim's controlled scheduler; merged call traces validated by TLC against FsTrace",
        text="TLC explores every interleaving (no preemption bound) of the race scenarios (same keep on a cold store incl. store "
             "creation, re-keep vs load, re-keep vs re-keep, three processes) for the 'atomic' protocol and rejects 'inplace'. "
             "On the real code two (two scenarios: three) shimmed processes run the same scenarios (plus two data directories over "
             "one internal directory) with exactly one file-system call in flight; schedules are enumerated depth-first with up to 1 (quick) / "
             "2 (thorough) preemptions; every keep / load that returns must return the complete correct value (loads: old or "
             "new), no process may fail, and a fresh process afterwards must keep and load correctly.",
        design_ref="DESIGN.md 5 C07, 2.4", category="model_checking",
        note="Exhaustive only up to the preemption bound and the per-scenario schedule budget on the real code (the model is "
             "unbounded); same-host POSIX semantics; no NFS."),
    "C16": dict(
        engine="tlc-design+tlc-generate",
        technique="TLA+ spec StoreViews (views = data directories over shared blobs; chdir and fresh-process steps; directory "
                  "spelling deliberately not part of the state) model-checked by TLC; generated behaviours replayed under every "
                  "directory spelling x cache_objects setting on real directories and processes",
        text="TLC checks on the full state graph that a load answers what the same view last kept (ConfigRoundTrip), that a key "
             "present in the shared blobs is never recomputed through another view (SharedBlobsNoRecompute) and that a view's "
             "paths only change through that view (ViewsIndependent). All behaviours of length 3 and simulated ones of length 9 "
             "are replayed with the directories spelled absolute / relative / './x/../x' / with trailing separators / nested and "
             "not yet existing / below a symbolic link, cache_objects in {None, False, True, 0, -1, 2}, real os.chdir and real "
             "fresh processes: any differing answer, exception, or recomputation the spec does not predict is a violation.",
        design_ref="DESIGN.md 5 C16", category="model_checking",
        note="A relative configuration is interpreted in the working directory at configuration time. Trusted: TLC, the client "
             "driver's projection of answers."),
    "C17": dict(
        engine="tlc-design+tlc-generate",
        technique="TLA+ spec StoreCodec (registry maps transcribed from dds/codec.py, per-blob persisted reference, processes with "
                  "different registries) model-checked by TLC (ReaderIsWriter, BuiltinVerbatim); simulated behaviours replayed on "
                  "LocalFileStore with instrumented user codecs and empty / non-ASCII / 1 MB values, raw blob bytes inspected",
        text="TLC checks on the full state graph that a fetch that returns is decoded by the codec recorded at write time (a process "
             "lacking it gets PROTOCOL_NOT_FOUND) and that str / bytes go to the verbatim built-in codecs unless a user codec took "
             "the type over. Simulated length-9 behaviours (register user codec / file codec, store, fetch, new process with any "
             "re-registration) are replayed: the persisted reference, the deserialising codec (instrumented), equality and type of "
             "the fetched value and verbatim-ness of the blob file must match the spec; two end-to-end keeps check the file under "
             "<data_dir>/<path> is the raw text / bytes.",
        design_ref="DESIGN.md 5 C17", category="model_checking",
        note="Byte-level fidelity of pickle / parquet is outside the model (equality is checked on real values). Two different "
             "codecs claiming one reference are out of scope."),
    "C19": dict(
        engine="tlc-design+tlc-generate",
        technique="TLA+ spec StoreDbfs (blob / metadata / copy / redirect-record files per commit type, legacy references) "
                  "model-checked by TLC (CommitHonoured, CommitStep, CopyHasRecord, LoadIffRecord, LegacyKind; store handles re-configured "
                  "with another commit type over the same directories); generated behaviours replayed through "
                  "dds.set_store('dbfs', commit_type=<documented spelling>) on an in-process fake of dbutils.fs, files inspected "
                  "after every step; StoreModel behaviours replayed on DBFSStore(fake)",
        text="Per commit type TLC checks what a path commit leaves under the data directory and that load works iff the redirect "
             "record exists, and that the decoding codec has the kind of the value for current and legacy references. All length-3 "
             "and simulated length-7 behaviours (keep / load of str, bytes, None, object results at paths incl. a dot-named one; "
             "planted legacy blobs; set_store again with another commit type) are replayed with every documented spelling of the commit type: returned values, whether the "
             "function ran, byte-identity of <data_dir>/<path> with the blob, and the record's key are compared with the spec "
             "after every step; the C08 store contract is replayed on the DBFS store as well.",
        design_ref="DESIGN.md 5 C19", category="model_checking",
        note="No Databricks runtime: cp / put / head / rm semantics of the fake are an assumption; the PySpark codec is not exercised."),
    "C08": dict(
        engine="tlc-design+tlc-generate+tlc-trace",
        technique="TLA+ spec StoreModel (dictionary store with path identity = segment sequence) model-checked by TLC over its "
                  "full state graph; TLC-generated operation sequences replayed on Memory/Local/LRU stores; recorded random "
                  "executions (dotted, unicode, concatenation-ambiguous paths) validated by TLC against StoreTrace",
        text="TLC explores the complete state graph of the abstract store (3 keys, 3 paths, unbounded operation sequences) with "
             "BlobRoundTrip/PathRoundTrip; all sequences of length <= 3 plus simulated length-14 behaviours are replayed on "
             "MemoryStore, LocalFileStore and their cache-wrapped forms over three path sets (concatenation-ambiguous, 1-4 "
             "segments, spaces/unicode/dot-names), every answer compared with the model; random executions with '.'/'..' "
             "paths, and executions of two live store objects re-committing paths in alternation, are recorded (answers + whether "
             "every created entry lies inside data_dir) and judged by TLC (StoreTrace); altered copies of recorded traces must be rejected.",
        design_ref="DESIGN.md 5 C08, 2.4, 3.4",
        note="Trusted: TLC; the driver's projection of real answers into the model vocabulary; directory snapshots for the "
             "'inside data_dir' observation. Content-addressed use (a key always stores the same value); no prefix-conflicting "
             "paths. DBFS(fake) is covered by C19."),
    "C12": dict(
        engine="tlc-design+tlc-generate",
        technique="TLA+ spec StoreModel with the LRU layer transcribed from dds/_lru_store.py: TLC checks Invisible/Bounded/"
                  "CacheCoherent on the full state graph per capacity; generated behaviours replayed in lock step on "
                  "LRUCacheStore(x) and bare x with weak-reference retention counts",
        text="TLC checks that the cache layer's answers equal the bare store's in every reachable state for capacities 1,2,3 "
             "(=unbounded for 3 keys; 10 in thorough) and that the entry list never exceeds the capacity; the same model with the "
             "pinned tree's 'cache None of an absent key' rule must be rejected (non-vacuity). Exhaustive length-3 and simulated "
             "length-14 behaviours are replayed in lock step on wrapped and bare Memory/Local stores: any differing answer, or "
             "more than `cap` fetched objects alive after gc, is a violation; cache_objects decoding is probed behaviourally.",
        design_ref="DESIGN.md 5 C12, 2.4",
        note="Trusted: TLC; weak references + gc.collect() as the measure of retained objects; content-addressed use."),
}

NOT_YET = "check not built yet (build in progress, see DESIGN.md section 9)"


def main() -> None:
    props = [json.loads(l) for l in open(os.path.join(VERIF, "properties.jsonl"))]
    hook_commits = []
    checks = []
    na = []
    for p in props:
        pid = p["id"]
        c = CHECKS.get(pid)
        if c is None:
            na.append({"property_id": pid, "reason": NOT_YET})
            continue
        checks.append({
            "property_id": pid,
            "quick_cmd": "./check %s --tier quick" % pid,
            "thorough_cmd": "./check %s --tier thorough" % pid,
            "evidence_file": "/verif/evidence/%s.json" % pid,
            "replay_cmd_template": "./check %s --replay {path}" % pid,
            "engine": c["engine"],
            "level_claimed": {"category": c.get("category", "model_checking"), "text": c["text"],
                              "design_ref": c["design_ref"]},
            "level_note": c.get("note", EVAL_NOTE),
            "technique": c["technique"],
        })
    m = {
        "version": 1,
        "setup_cmd": "./setup.sh",
        "hooks": {
            "guard": "TJHUNTER_DDS_PY_VERIF",
            "enable": "no hooks in /repo: all observation is from outside the library (recording Store installed with "
                      "dds.set_store, execution-log module of the generated programs, file-system shim, fake dbutils)",
            "baseline_off_cmd": "cd /repo && /venv/bin/python -m pytest -ra -q -p no:cacheprovider --timeout=900 "
                                "--continue-on-collection-errors",
            "source_commits": hook_commits,
            "add_only": True,
        },
        "engines": [
            {"name": "tlc-design", "path": "/verif/spec", "serves_properties": sorted(CHECKS.keys()),
             "kind_free_text": "exhaustive TLC runs of each TLA+ module with small constants (invariants + action properties)"},
            {"name": "tlc-generate", "path": "/verif/harness", "serves_properties": sorted(CHECKS.keys()),
             "kind_free_text": "TLC enumerates behaviours with expected observables (history variable dumped as JSON); the "
                               "harness replays each on the real code in forked / pristine worker processes"},
        ],
        "checks": checks,
        "not_applicable": na,
        "notes": "Model-based verification with explicit TLA+ specifications (DESIGN.md). Exit 2 = machinery failure.",
    }
    with open(os.path.join(VERIF, "MANIFEST.json"), "w") as f:
        json.dump(m, f, indent=1)
    import jsonschema
    jsonschema.validate(m, json.load(open("/root/.vp/MANIFEST.schema.json")))
    print("MANIFEST.json: %d checks, %d not applicable; valid" % (len(checks), len(na)))


if __name__ == "__main__":
    main()
