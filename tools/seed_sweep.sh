#!/bin/bash
# quick tier of every check under other seeds, on a snapshot of /repo (vp run --with-repo)
export VERIF_REPO=${VP_RUN_REPO:-/repo}
./setup.sh >/dev/null 2>&1
for s in ${SEEDS:-2 3}; do
  for c in C01 C02 C03 C04 C05 C06 C07 C08 C09 C10 C11 C12 C13 C14 C15 C16 C17 C18 C19; do
    echo "=== seed $s $c"
    VERIF_SEED=$s /usr/bin/time -f "%es" ./check $c --tier quick 2>&1 | grep -v "^KNOWN-FINDING" | tail -6
  done
done
