#!/venv/bin/python
"""Automatic mutation run (development tool, not a registered check).

Applies small textual mutations to a scratch worktree of /repo, keeps the mutants that the
repository's own test-suite does not notice, and runs the quick tier of the checks that cover the
mutated file (in a scratch worktree of /verif, VERIF_REPO pointing at the mutated tree) until one
of them reports a violation.  Survivors are listed for review: each is either an equivalent mutant
or a gap of the checks.

usage: mutate.py <out.jsonl> [--n N] [--seed S] [--files f1,f2]
"""
import json
import os
import random
import re
import subprocess
import sys
import time

REPO = "/repo"
WT = "/tmp/mut_repo"
VWT = "/tmp/mut_verif"

CHECKS = {
    "dds/store.py": ["C08", "C04", "C06", "C16", "C17", "C07"],
    "dds/_lru_store.py": ["C12", "C04"],
    "dds/fun_args.py": ["C05", "C13", "C01"],
    "dds/introspect.py": ["C01", "C11", "C09", "C14", "C02", "C03", "C13"],
    "dds/_introspect_indirect.py": ["C09", "C11", "C01", "C14"],
    "dds/_retrieve_objects.py": ["C01", "C14", "C03", "C02"],
    "dds/structures_utils.py": ["C11", "C09", "C04", "C10"],
    "dds/_api.py": ["C04", "C01", "C10", "C15", "C09", "C11", "C16", "C12", "C19", "C18"],
    "dds/codec.py": ["C17", "C19"],
    "dds/codecs/builtins.py": ["C17", "C04"],
    "dds/codecs/databricks.py": ["C19"],
    "dds/_plotting.py": ["C18"],
    "dds/_eval_ctx.py": ["C14", "C01"],
    "dds/_annotations.py": ["C01", "C09"],
}

OPS = [
    (r" == ", " != "), (r" != ", " == "), (r" is not None", " is None"), (r" is None", " is not None"),
    (r" and ", " or "), (r" or ", " and "), (r"\bnot ", ""), (r" < ", " <= "), (r" <= ", " < "), (r" > ", " >= "),
    (r"\bTrue\b", "False"), (r"\bFalse\b", "True"), (r" \+ 1\b", ""), (r" - 1\b", ""), (r"\[1:\]", "[:]"), (r"\[:-1\]", "[:]"),
    (r"\bin\b (?!\()", "not in "), (r"exist_ok=True", "exist_ok=False"), (r"sorted\(", "list("),
    (r"\.update\(", ".setdefault(*"), (r"\bcontinue\b", "pass"), (r"\bbreak\b", "pass"),
]


def sh(cmd, cwd=None, env=None, timeout=3600):
    e = dict(os.environ)
    if env:
        e.update(env)
    # own session: on a timeout the whole process group goes (a hung check must not survive as an orphan)
    import signal
    p = subprocess.Popen(cmd, shell=True, cwd=cwd, env=e, stdout=subprocess.PIPE, stderr=subprocess.STDOUT, start_new_session=True)
    try:
        (o, _) = p.communicate(timeout=timeout)
        return (p.returncode, o.decode("utf-8", "replace"))
    except subprocess.TimeoutExpired:
        try:
            os.killpg(p.pid, signal.SIGKILL)
        except OSError:
            pass
        p.wait()
        return (-9, "TIMEOUT")


def candidate_sites(rel):
    with open(os.path.join(WT, rel), newline="") as f:
        lines = f.read().split("\n")
    sites = []
    indoc = False
    for (i, ln) in enumerate(lines):
        s = ln.strip()
        if s.count('"""') % 2 == 1:
            indoc = not indoc
            continue
        if indoc or not s or s.startswith("#") or "_logger" in s or s.startswith(("raise ", "f\"", "\"", "import ", "from ", "assert ", "def ", "class ", "@")):
            continue
        if 'f"' in s or "f'" in s:
            continue
        for (k, (pat, rep)) in enumerate(OPS):
            for m in re.finditer(pat, ln):
                sites.append((rel, i, k, m.start()))
        if re.match(r"^\s+(self\.)?[\w\.\[\]\"']+(\.\w+)*\(.*\)\s*\r?$", ln) and not s.startswith(("return", "yield", "super(")):
            sites.append((rel, i, -1, 0))       # statement deletion (a bare call statement)
    return (lines, sites)


def apply_site(site):
    (rel, i, k, pos) = site
    p = os.path.join(WT, rel)
    with open(p, newline="") as f:
        lines = f.read().split("\n")
    ln = lines[i]
    if k == -1:
        ind = len(ln) - len(ln.lstrip())
        new = ln[:ind] + "pass" + ("\r" if ln.endswith("\r") else "")
    else:
        (pat, rep) = OPS[k]
        m = re.compile(pat).search(ln, pos)
        if not m or m.start() != pos:
            return None
        new = ln[:m.start()] + rep + ln[m.end():]
    lines[i] = new
    with open(p, "w", newline="") as f:
        f.write("\n".join(lines))
    return {"file": rel, "line": i + 1, "old": ln.strip(), "new": new.strip()}


def main():
    out = sys.argv[1]
    n = int(sys.argv[sys.argv.index("--n") + 1]) if "--n" in sys.argv else 60
    seed = int(sys.argv[sys.argv.index("--seed") + 1]) if "--seed" in sys.argv else 1
    files = sys.argv[sys.argv.index("--files") + 1].split(",") if "--files" in sys.argv else sorted(CHECKS)
    sh("git -C %s worktree remove --force %s; git -C %s worktree add --detach %s HEAD" % (REPO, WT, REPO, WT))
    sh("git -C /verif worktree remove --force %s; git -C /verif worktree add --detach %s HEAD" % (VWT, VWT))
    sh("./setup.sh", cwd=VWT, env={"VERIF_REPO": WT})
    rnd = random.Random(seed)
    sites = []
    for rel in files:
        sites += candidate_sites(rel)[1]
    rnd.shuffle(sites)
    done = 0
    with open(out, "a") as fo:
        for site in sites:
            if done >= n:
                break
            sh("git checkout -- .", cwd=WT)
            mut = apply_site(site)
            if mut is None:
                continue
            (rc, o) = sh("/venv/bin/python -c 'import dds, dds.codecs.databricks, dds._plotting'", cwd=WT, env={"PYTHONPATH": WT})
            if rc != 0:
                continue
            (rc, o) = sh("/venv/bin/python -m pytest -q -x -p no:cacheprovider --timeout=300 --deselect dds_tests/test_sklearn.py dds_tests 2>&1 | tail -1",
                         cwd=WT, env={"PYTHONPATH": WT}, timeout=900)
            if "passed" not in o or "failed" in o or "error" in o:
                continue        # the repository's tests notice it
            done += 1
            mut["killed_by"] = None
            mut["ran"] = []
            t0 = time.time()
            for c in CHECKS[site[0]]:
                (rc, o) = sh("./check %s --tier quick" % c, cwd=VWT, env={"VERIF_REPO": WT}, timeout=3000)
                mut["ran"].append([c, rc])
                if rc == 1 and "VIOLATION" in o:
                    mut["killed_by"] = c
                    mut["cause"] = [l.strip() for l in o.split("\n") if l.startswith("  cause")][:2]
                    break
                if rc == 2:
                    mut["machinery"] = o[-400:]
            mut["secs"] = round(time.time() - t0)
            fo.write(json.dumps(mut) + "\n")
            fo.flush()
            print(json.dumps(mut)[:300], flush=True)
    sh("git checkout -- .", cwd=WT)
    sh("git -C %s worktree remove --force %s" % (REPO, WT))
    sh("git -C /verif worktree remove --force %s" % VWT)


if __name__ == "__main__":
    main()
