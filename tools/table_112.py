#!/usr/bin/env python3
"""DESIGN.md 11.2 from the evidence files (numbers of the last run of each check).
usage: table_112.py           print the rows
       table_112.py --write   rewrite the rows of the table in DESIGN.md (column 2 is kept)"""
import json
import os
import re
import sys

VERIF = os.path.dirname(os.path.dirname(os.path.abspath(__file__)))
EXTRA = ("crash_points_executed", "schedules_executed", "fs_traces_validated_by_tlc", "recorded_traces_validated_by_tlc",
         "recorded_two_handle_traces_validated_by_tlc", "protocol_traces_judged_by_tlc", "observations_judged_by_tlc",
         "recorded_observations_judged_by_tlc", "reference_run_evaluations_agreeing", "corpus_evaluations",
         "store_contract_behaviours_on_dbfs", "end_to_end_keeps", "parameter_lists", "enumerated_values")


def row(pid: str, mods: str) -> str:
    e = json.load(open(os.path.join(VERIF, "evidence", pid + ".json")))
    c = e["coverage"]
    extra = ["%s=%s" % (k.replace("_", " "), c[k]) for k in EXTRA if k in c]
    return "| %s | %s | %s states, %s transitions | %s behaviours / histories replayed or validated (%s non-trivial)%s | %d s |" % (
        pid, mods, c.get("states"), c.get("transitions"), c.get("traces_validated_against_impl"), c.get("distinct_nontrivial"),
        ("; " + ", ".join(extra)) if extra else "", round(e["wall_s"]))


def main() -> None:
    p = os.path.join(VERIF, "DESIGN.md")
    s = open(p).read()
    a = s.index("### 11.2 Per property")
    b = s.index("(measured on this sandbox")
    out = []
    for ln in s[a:b].split("\n"):
        m = re.match(r"\| (C\d\d) \| ([^|]*) \|", ln)
        out.append(row(m.group(1), m.group(2).strip()) if m else ln)
        if m and "--write" not in sys.argv:
            print(out[-1])
    if "--write" in sys.argv:
        open(p, "w").write(s[:a] + "\n".join(out) + s[b:])


if __name__ == "__main__":
    main()
