#!/usr/bin/env python3
"""Prints the rows of DESIGN.md 11.2 from the evidence files (numbers of the last run of each check)."""
import json
import os
import sys

VERIF = os.path.dirname(os.path.dirname(os.path.abspath(__file__)))
for i in range(1, 20):
    pid = "C%02d" % i
    p = os.path.join(VERIF, "evidence", pid + ".json")
    if not os.path.exists(p):
        print("| %s | (no evidence) |" % pid)
        continue
    e = json.load(open(p))
    cov = e.get("coverage") or e.get("cov") or {}
    flat = json.dumps(e)
    def g(k):
        v = cov.get(k)
        if v is None and isinstance(e.get("metrics"), dict):
            v = e["metrics"].get(k)
        return v
    print("| %s | tier=%s | states=%s | traces=%s | nontrivial=%s | wall=%s |" % (
        pid, e.get("tier"), g("states"), g("traces_validated_against_impl"), g("distinct_nontrivial"), e.get("wall_s") or g("wall_s")))
