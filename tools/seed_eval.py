#!/venv/bin/python
"""Confirms a seeded breaking change produced by a sub-agent in a scratch worktree, stores it under
/verif/seeded/<name>/, applies it to /repo, runs the given checks, and undoes it.
usage: seed_eval.py <name> <worktree> <property> [<check> ...]"""
import json
import os
import shutil
import subprocess
import sys
import time

VERIF = os.path.dirname(os.path.dirname(os.path.abspath(__file__)))


def sh(cmd, cwd=None, env=None, timeout=1800):
    e = dict(os.environ)
    if env:
        e.update(env)
    p = subprocess.run(cmd, shell=True, cwd=cwd, env=e, stdout=subprocess.PIPE, stderr=subprocess.STDOUT, timeout=timeout)
    return (p.returncode, p.stdout.decode("utf-8", "replace"))


def main():
    (name, wt, prop) = sys.argv[1:4]
    checks = sys.argv[4:] or [prop]
    d = os.path.join(VERIF, "seeded", name)
    os.makedirs(d, exist_ok=True)
    # the patch is what is applied in the worktree (worktrees share one stash: never use git stash here)
    (rc, diff) = sh("git diff -- dds", cwd=wt)
    agent_patch = os.path.join(wt, "patch.diff")
    if os.path.exists(agent_patch) and open(agent_patch, newline="").read().strip() != diff.strip():
        print("WARNING: worktree diff differs from the agent's patch.diff; resetting the worktree to the agent's patch")
        sh("git checkout -- dds", cwd=wt)
        (rc, out) = sh("git apply patch.diff", cwd=wt)
        assert rc == 0, out
        (rc, diff) = sh("git diff -- dds", cwd=wt)
    open(os.path.join(d, "patch.diff"), "w", newline="").write(diff)
    for f in ("demo.py", "NOTE.md"):
        if os.path.exists(os.path.join(wt, f)):
            shutil.copy(os.path.join(wt, f), os.path.join(d, f))
    env = {"PYTHONPATH": wt}
    meta = {"property": prop, "name": name, "confirmed": {}, "checks": {}}
    (rc, out) = sh("/venv/bin/python -m pytest -q -p no:cacheprovider --timeout=900 dds_tests 2>&1 | tail -3", cwd=wt, env=env)
    meta["confirmed"]["tests_with_change"] = out.strip().split("\n")[-1]
    (rc1, out1) = sh("/venv/bin/python demo.py", cwd=wt, env=env, timeout=900)
    meta["confirmed"]["demo_with_change_exit"] = rc1
    (rcx, outx) = sh("git apply -R %s" % os.path.join(d, "patch.diff"), cwd=wt)
    assert rcx == 0, outx
    (rc0, out0) = sh("/venv/bin/python demo.py", cwd=wt, env=env, timeout=900)
    (rcx, outx) = sh("git apply %s" % os.path.join(d, "patch.diff"), cwd=wt)
    assert rcx == 0, outx
    meta["confirmed"]["demo_without_change_exit"] = rc0
    ok = rc1 != 0 and rc0 == 0 and "59 passed" in meta["confirmed"]["tests_with_change"]
    meta["confirmed"]["ok"] = ok
    print("confirmed:", json.dumps(meta["confirmed"]))
    if ok and os.environ.get("SEED_PRESCREEN"):
        # pre-screen while /repo is in use by a long run: the checks read the worktree (change applied) instead
        for c in checks:
            t0 = time.time()
            (rc, out) = sh("./check %s --tier quick" % c, cwd=VERIF, timeout=3600, env={"VERIF_REPO": wt})
            lines = [l for l in out.split("\n") if l.startswith("VIOLATION") or l.startswith("  cause") or l.startswith("MACHINERY") or l.startswith("KNOWN")]
            meta["checks"][c] = {"exit": rc, "wall_s": round(time.time() - t0, 1), "lines": lines[:12], "prescreen_on_worktree": True}
            print(c, "exit", rc, lines[:6])
    elif ok:
        (rc, out) = sh("git -C /repo status --porcelain")
        assert out.strip() == "", "repo not clean: " + out
        (rc, out) = sh("git -C /repo apply %s" % os.path.join(d, "patch.diff"))
        assert rc == 0, out
        try:
            for c in checks:
                t0 = time.time()
                (rc, out) = sh("./check %s --tier quick" % c, cwd=VERIF, timeout=3600)
                lines = [l for l in out.split("\n") if l.startswith("VIOLATION") or l.startswith("  cause") or l.startswith("MACHINERY") or l.startswith("KNOWN")]
                meta["checks"][c] = {"exit": rc, "wall_s": round(time.time() - t0, 1), "lines": lines[:12]}
                print(c, "exit", rc, lines[:6])
        finally:
            sh("git -C /repo checkout -- .")
    meta["needs"] = open(os.path.join(d, "NOTE.md")).read()[:1500] if os.path.exists(os.path.join(d, "NOTE.md")) else ""
    json.dump(meta, open(os.path.join(d, "meta.json"), "w"), indent=1)


if __name__ == "__main__":
    main()
