"""Development helper: exact string replacement in a /repo file preserving CRLF line endings.
usage: repo_patch.py <file> <old-file> <new-file>"""
import sys
(p, old_f, new_f) = sys.argv[1:4]
s = open(p, newline='').read()
nl = '\r\n' if '\r\n' in s else '\n'
old = open(old_f).read().replace('\n', nl)
new = open(new_f).read().replace('\n', nl)
assert s.count(old) == 1, "old string occurs %d times" % s.count(old)
open(p, 'w', newline='').write(s.replace(old, new))
print("patched", p)
