#!/venv/bin/python
"""(Re)creates the pinned corpus of C03: generated programs are written out as plain source
files (so that later changes of the materialiser cannot alter them), every program of the corpus
is evaluated in a fresh interpreter against /repo's working tree, and the path -> signature maps
are written to corpus/pinned.json.  Run explicitly, after fix commits that change signatures on
purpose; never run by a check."""
import json
import os
import shutil
import sys

VERIF = os.path.dirname(os.path.dirname(os.path.abspath(__file__)))
sys.path.insert(0, VERIF)
from harness import common, envprops, materialize as mat, shapes as shp  # noqa


def main() -> None:
    corpus = os.path.join(VERIF, "corpus")
    regen = "--regen" in sys.argv
    add = "--add" in sys.argv        # only write the programs that are not in the corpus yet
    if regen or add:
        import copy
        inl = [copy.deepcopy(x) for x in shp.core_shapes() if x.name in ("rtinline", "rtchain")]
        for x in inl:
            x.real["inline_call_args"] = True
            x.name += "_inl"
        for s in shp.core_shapes() + shp.vtype_shapes(["bool", "tuple", "date", "dataclass", "dict"]) + \
                [x for x in shp.load_shapes() if "load-before-producer" not in x.tags] + inl + shp.graph_shapes() + shp.tworoot_shapes() + shp.callarg_shapes():
            for layout in (["one", "split"] if s.name in ("chain", "shared", "ld_df") else ["one"]):
                name = "gen_%s_%s" % (s.name, layout)
                d = os.path.join(corpus, name)
                if add and os.path.isdir(d):
                    continue
                shutil.rmtree(d, ignore_errors=True)
                prog = {"body": {f: 0 for f in s.funs}, "cos": {f: 0 for f in s.funs}, "vval": {v: 0 for v in s.vars},
                        "arg": [[f, i + 1, 0] for f in s.funs for (i, st) in enumerate(s.stmts[f]) if st["a"] in ("const", "kw", "runtime")],
                        "unrel": 0, "ext": 0, "layout": layout, "fail": {}}
                mat.write_tree(d, mat.files_of(s, prog))
                mods = mat.module_of(s, layout)
                evals = []
                for r in s.roots:
                    for st in r["styles"]:
                        evals.append({"id": "%s_%s" % (r["f"], st), "module": mods[r["f"]], "root": r["f"], "style": st,
                                      "root_path": r["path"], "args": [0] if r.get("arg") else []})
                with open(os.path.join(d, "manifest.json"), "w") as f:
                    json.dump({"modules": sorted(set(mods.values())), "accept": ["vpkg"], "evals": evals}, f, indent=1)
    pinned = envprops.run_corpus(corpus, {"hashseed": "0"})
    with open(os.path.join(corpus, "pinned.json"), "w") as f:
        json.dump(pinned, f, indent=1, sort_keys=True)
    print("pinned %d evaluations of %d programs" % (len(pinned), len(set(k.split("::")[0] for k in pinned))))


if __name__ == "__main__":
    main()
