import coverage
coverage.process_startup()
